#!/bin/bash
# usage: tools/keepone.sh <dir under /tmp/mut> <X> <Cnn> <round> : confirm, check and keep one mutant
dir=$1; x=$2; id=$3; round=$4
d=/tmp/mut/$dir/$x
c=$(RACEFLAG=$RACEFLAG tools/confirmmut.sh $d)
k=$(MUTLINES=3 tools/mutcheck.sh $d/patch.diff $id quick | cut -c1-300)
echo "$c"; echo "$k" | head -3
python3 tools/keepmut.py $dir $x "$c" "$k" > /dev/null
python3 - "$dir" "$x" "$id" "$round" <<'PY'
import json,sys
d,x,pid,rnd=sys.argv[1:5]
p='/verif/seeded/%s-%s/meta.json'%(d,x)
m=json.load(open(p)); m['property']=pid; m['breaks']=pid; m['round']=int(rnd)
json.dump(m,open(p,'w'),indent=1)
PY
