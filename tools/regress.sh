#!/bin/bash
# usage: tools/regress.sh : run every kept seeded change against the quick check of its property; prints the ones NOT detected
cd /verif
for d in seeded/*/; do
  b=$(basename $d); id=${b:0:3}
  [ -f $d/patch.diff ] || continue
  st=$(python3 -c "import json;print(json.load(open('$d/meta.json')).get('status',''))")
  out=$(MUTLINES=1 tools/mutcheck.sh /verif/${d}patch.diff $id quick | head -1)
  case "$out" in *"exit=1"*) echo "ok   $b" ;; *) echo "MISS $b [$st] $out" ;; esac
done
