#!/bin/bash
# usage: tools/confirmmut.sh <dir with patch.diff + demo_test.go>
# Confirms in a scratch worktree of /repo HEAD: patch applies and builds, the repository's
# tests pass with it, the demonstration fails with it and passes without it.
d=$1
export GOFLAGS=-mod=mod GOPROXY=off GOSUMDB=off GOTOOLCHAIN=local
wt=/tmp/wt/confirm.$$
git -C /repo worktree add -q --detach $wt HEAD || exit 9
trap 'git -C /repo worktree remove --force '$wt' 2>/dev/null' EXIT
cd $wt
pkg=$(grep -m1 '^package ' $d/demo_test.go | awk '{print $2}')
case "$pkg" in tcell|tcell_test) sub=. ;; views|views_test) sub=views ;; terminfo|terminfo_test) sub=terminfo ;; encoding) sub=encoding ;; extended|extended_test) sub=terminfo/extended ;; base) sub=terminfo/base ;; *) sub=. ;; esac
tname=$(grep -o 'func Test[A-Za-z0-9_]*' $d/demo_test.go | head -1 | awk '{print $2}')
res="applies=no"
if git apply $d/patch.diff 2>/dev/null || { git apply -3 $d/patch.diff 2>/dev/null && git reset -q; }; then res="applies=yes"; else git reset -q --hard HEAD; echo "$d $res"; exit 1; fi
if go build ./... 2>/dev/null; then res="$res build=ok"; else echo "$d $res build=FAIL"; exit 1; fi
if go test -vet=off -count=1 ./... >/tmp/confirm.$$.log 2>&1; then res="$res suite=pass"; else res="$res suite=FAIL"; fi
cp $d/demo_test.go $sub/zz_seeded_demo_test.go
if go test ${RACEFLAG:-} -vet=off -count=1 -run "^$tname\$" ./$sub >/tmp/confirm.$$.log 2>&1; then res="$res demo_with_patch=PASS(bad)"; else res="$res demo_with_patch=fail(good)"; fi
git checkout -q -- . 
if go test ${RACEFLAG:-} -vet=off -count=1 -run "^$tname\$" ./$sub >/tmp/confirm.$$.log 2>&1; then res="$res demo_clean=pass(good)"; else res="$res demo_clean=FAIL(bad)"; tail -5 /tmp/confirm.$$.log; fi
rm -f $sub/zz_seeded_demo_test.go /tmp/confirm.$$.log
echo "$d $res"
