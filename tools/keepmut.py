#!/usr/bin/env python3
"""usage: keepmut.py <Cnn> <X> <confirm-line> <check-result> -- copies /tmp/mut/Cnn/X into /verif/seeded/Cnn-X with meta.json
The 'needs' text is taken from the README (section kept verbatim)."""
import sys, os, shutil, json
pid, x, confirm, detected = sys.argv[1:5]
src = '/tmp/mut/%s/%s' % (pid, x)
dst = '/verif/seeded/%s-%s' % (pid, x)
os.makedirs(dst, exist_ok=True)
for f in os.listdir(src):
    shutil.copy(os.path.join(src, f), dst)
readme = open(os.path.join(src, 'README.md')).read() if os.path.exists(os.path.join(src, 'README.md')) else ''
meta = {"property": pid, "id": "%s-%s" % (pid, x), "breaks": pid,
        "needs_to_manifest": "see README.md (written by the independent sub-agent that produced the change)",
        "confirmed_by_me": confirm,
        "check_result": detected,
        "origin": "fresh sub-agent given only the property text and a scratch worktree"}
json.dump(meta, open(os.path.join(dst, 'meta.json'), 'w'), indent=1)
print("kept", dst)
