#!/usr/bin/env python3
"""Regenerates /verif/MANIFEST.json from the table below (claimed checks) —
every property without an entry is listed under not_applicable with the reason
given in PENDING."""
import json, os, subprocess
V = os.path.dirname(os.path.dirname(os.path.abspath(__file__)))

CHECKS = {
 "C07": dict(level="exploration", design="3/C07", technique="differential reference-model monitor (independent terminfo(5) interpreter, ncurses cross-check) over enumerated database domains and generated programs",
    text="Runs tcell's TParm on every parameterized string of the database over its parameter domain (exhaustive: cursor 0..299^2 quick / 0..1023^2 thorough, colour 0..255, RGB lattice quick / all 2^24 thorough) and on seeded well-formed programs of the terminfo(5) grammar, comparing each output with an independently written stack machine; random/truncated strings for robustness. Held = no disagreement on what was run.",
    note="Trusted: the tiref interpreter (cross-checked against ncurses tparm on integer-only programs in every run) and the terminfo(5) reading; programs where the reference reports a strict-mode fault are excluded."),
}
PENDING = {}

def main():
    props = [json.loads(l) for l in open(os.path.join(V, "properties.jsonl"))]
    hooks_commits = subprocess.run(["git", "-C", "/repo", "log", "--format=%H %s", "--grep=^verif hooks"], capture_output=True, text=True).stdout.strip().splitlines()
    checks, na = [], []
    for p in props:
        i = p["id"]
        if i in CHECKS:
            c = CHECKS[i]
            checks.append({
                "property_id": i,
                "quick_cmd": "./run.sh %s quick" % i,
                "thorough_cmd": "./run.sh %s thorough" % i,
                "evidence_file": "/verif/evidence/%s.json" % i,
                "replay_cmd_template": "./run.sh replay {path}",
                "engine": c.get("engine", "vcheck"),
                "level_claimed": {"category": c["level"], "text": c["text"], "design_ref": "DESIGN.md §" + c["design"]},
                "level_note": c["note"],
                "technique": c["technique"],
            })
        else:
            na.append({"property_id": i, "reason": PENDING.get(i, "monitor designed (DESIGN.md §3) but not built yet in this tree; no claim is made")})
    m = {
        "version": 1,
        "setup_cmd": "./run.sh setup",
        "hooks": {
            "guard": "verif (Go build tag)",
            "enable": "go build -tags verif (the harness module replaces github.com/gdamore/tcell/v2 => /repo)",
            "baseline_off_cmd": "cd /repo && GOFLAGS=-mod=mod GOPROXY=off GOSUMDB=off GOTOOLCHAIN=local go test -json -vet=off -count=1 -timeout 25m ./...",
            "source_commits": [l.split()[0] for l in hooks_commits],
            "add_only": True,
        },
        "engines": [
            {"name": "vcheck", "path": "/verif/harness/cmd/vcheck", "serves_properties": sorted(CHECKS), "kind_free_text": "Go binary built with -tags verif against /repo's working tree; runs the real tcell code under generated workloads with reference-model monitors, trace checkers and the race detector (vcheck-race)"},
        ],
        "checks": checks,
        "not_applicable": na,
        "notes": "All commands run from /verif; VERIF_SEED selects the seed (default 1). Exit 0 held / 1 violation (VIOLATION line) / 2 inconclusive (observed too little) / 3 harness or build failure. Known findings: /verif/known_findings.json.",
    }
    json.dump(m, open(os.path.join(V, "MANIFEST.json"), "w"), indent=1)
    print("claimed:", len(checks), "not_applicable:", len(na))

if __name__ == "__main__":
    main()
