#!/usr/bin/env python3
"""Regenerates /verif/MANIFEST.json from the table below (claimed checks) —
every property without an entry is listed under not_applicable with the reason
given in PENDING."""
import json, os, subprocess
V = os.path.dirname(os.path.dirname(os.path.abspath(__file__)))

CHECKS = {
 "C07": dict(level="exploration", design="3/C07", technique="differential reference-model monitor (independent terminfo(5) interpreter, ncurses cross-check) over enumerated database domains and generated programs",
    text="Runs tcell's TParm on every parameterized string of the database over its parameter domain (exhaustive: cursor 0..299^2 quick / 0..1023^2 thorough, colour 0..255, RGB lattice quick / all 2^24 thorough) and on seeded well-formed programs of the terminfo(5) grammar, comparing each output with an independently written stack machine; random/truncated strings for robustness. Held = no disagreement on what was run.",
    note="Trusted: the tiref interpreter (cross-checked against ncurses tparm on integer-only programs in every run) and the terminfo(5) reading; programs where the reference reports a strict-mode fault are excluded."),
 "C02": dict(level="exploration", design="3/C02", technique="differential trace monitor on the real input parser (synchronous verif hook): one-read vs partitioned decoding, framing oracle, pipeline cross-check",
    text="Feeds seeded token strings and random byte strings to tcell's real collectEventsFromInput for every database entry, in one read and under all (n<=10) or many partitions with no expiry in between, and requires identical event lists, zero leftover after expiry and no panic; state-free token strings must decode to the concatenation of their tokens; repeated tokens; a sample goes through the real inputLoop/mainLoop/PollEvent path, sequences trickle in one byte per read 20 ms apart, input sizes around the 128-byte read size end in a lone ESC, and a sequence split across two reads is fed while the main loop is held up past the escape timer by a redraw on a slow tty.",
    note="Assumes expire=false on every chunk models 'no timeout in between'; the 50 ms timer is exercised by the stalled-main-loop rounds (timing-compromised rounds discarded) and by C06. Sampled, not exhaustive, over strings."),
 "C03": dict(level="exploration", design="3/C03", technique="exhaustive enumeration of the key tables of all database entries through the real parser, against acceptance sets derived independently from the entry's field names and an independent xterm modifier encoder",
    text="Every Key* field of every entry, every control byte, DEL, lone ESC, the Alt prefix, every xterm modifier parameter 2..16 on cursor/editing/function keys, prefix-freedom of descriptions and built tables, ordered pairs (sampled in quick, all in thorough) and sampled triples; the Alt prefix with ESC and key in two reads; every sequence under all 8 combinations of application modes (mouse/paste/focus, set through the SetModes hook); key runs through the real reader and main loop with a poller that starts late.",
    note="Trusted: the mapping field name -> (key, modifiers) and the xterm modifier encoding written in the harness; triples are sampled."),
 "C08": dict(level="exploration", design="3/C08", technique="lock-step reference-model monitor of the public CellBuffer API with a three-valued dirty oracle",
    text="Seeded histories of SetContent/Fill/Resize/Invalidate/SetDirty/LockCell/UnlockCell on a real CellBuffer; after every operation every cell and the out-of-range ring are compared with a reference array (content exactly, Dirty must-true/must-false/unconstrained).",
    note="Width from go-runewidth (non East Asian); Dirty after Resize demanded only when dimensions change; histories are sampled."),
 "C15": dict(level="exploration", design="3/C15", technique="differential monitor: independent padding grammar, per-family cursor-address decoders and the reference SGR interpreter; exhaustive over short strings and over the 0..300 grids",
    text="TPuts output vs an independent $<...> grammar for every string up to length 6 (quick) / 7 (thorough) over an 11-symbol alphabet plus random longer ones; TGoto for every entry x 301x301 positions decoded by the entry's addressing family; TColor for every entry x (-1..300)^2 interpreted by the reference SGR interpreter; the same strings from LookupTerminfo after all derived -256color/-truecolor names were looked up and under the direct-colour environment switches; sound timing directions (never shorter than specified with a pad character, also with several fractional/flagged specifications in one string; never a sleep without one, for every spelling of the specification).",
    note="Cursor-addressing family is assigned by the harness from the entry name; timing checks only use directions a loaded machine cannot falsify."),
 "C16": dict(level="exploration", design="3/C16", technique="exhaustive comparison with independent references (xterm palette formula, CSS keyword table, own sRGB->CIELAB CIE76)",
    text="All 256 palette indices, all CSS3 keywords (both directions), all 2^24 RGB values through every conversion, invalid/special colours; FromImageColor over every colour model of image/color (16-bit, translucent, grey, CMYK, YCbCr); FindColor with RGB and palette-indexed queries against the 8/16/88/256 palettes on a lattice + random (quick) or all 2^24 (thorough) and random and non-identity palettes (monochrome, reversed, rotated, RGB-only) including equal-size runs.",
    note="CIELAB from sRGB primaries and D65 at full precision; ties within 1e-9 accepted."),
 "C20": dict(level="exploration", design="3/C20", technique="reference-model monitor with recording parent View and recording child widgets; exact rational share oracle",
    text="Seeded ViewPort geometries/op sequences checked call by call at the recording parent (mapping, clipping, offset limits in inside-before => inside-after form) and seeded BoxLayouts (<= 8 children, nested) checked from the ViewPorts handed to children and from what a full Draw paints on the root: order, disjointness, containment, preferred extent, exact surplus shares; half of the nested layouts carry a second (application) watcher that claims every event.",
    note="The rectangle of a ViewPort is what GetPhysical/Size report; nested layouts are not re-oriented after creation (the statement does not say when a child's changed preferred size must be picked up)."),
 "C01": dict(level="exploration", design="3/C01", technique="lock-step differential monitor: real terminfo screen over an instrumented fake tty, every output byte interpreted by a reference terminal emulator, compared with a shadow model after every Show/Sync/resize",
    text="Seeded draw histories (incl. external corruption + Sync, silent and callback resizes, locks incl. negative origins, identical re-stores and re-stores with one combining mark exchanged, cursor ops far outside the screen, Suspend / foreign output / Resume followed by the application storing everything again; for C13 also a Show whose output the tty refuses after k bytes followed by an idle Show) on all 45 ECMA-48-family entries x {as registered, 24-bit strings added} plus a TCELL_TRUECOLOR=disable pass; a coalesced-size-report scenario (window A->B->A while another goroutine is inside Show on a slow tty, judged when the library is idle); after each redraw the full emulator grid (rune, combining, width, colours with nearest-palette sets, attributes, underline style/colour, hyperlink) and cursor are compared with the model.",
    note="Assumes A1-A4 (deferred wrap, agreed widths, sun FF, no padding delays); the emulator and colour references are the harness's own; histories are sampled."),
 "C04": dict(level="exploration", design="3/C04", technique="register monitor on the reference terminal at Fini/Suspend/Resume boundaries plus an online call-order automaton in the fake Tty, with faults: resize during Drain, failing first Read, modes enabled or Fini called from another goroutine in the unlocked window of a shutdown, a window of 0 columns/rows",
    text="Seeded mode/drawing histories with Suspend/Resume cycles ending in Fini or Suspend, on 45 entries x TCELL_ALTSCREEN {unset, disable} x both Drain personalities; at every shutdown return the emulator's registers are compared with the reset vector, after Resume with the application's enabled modes; every Tty call is checked against the contract automaton.",
    note="Only capabilities an entry has are demanded; hyperlink register excluded from the reset vector; between Suspend and Resume only mode requests are issued (drawing then is C06's)."),
 "C09": dict(level="exploration", design="3/C09", technique="strict ECMA-48 tokenizer + residue rule over every byte of draw histories (UTF-8 and an 8-bit locale) and a twin-screen injection sweep over code points",
    text="All output of seeded draw histories on 45 entries goes through a strict tokenizer (numeric CSI parameters, terminated strings, no control bytes as payload, no % or $< residue); every must-blank rune via SetContent/SetCell/Fill at four columns in three locales must produce bytes identical to a blank's; every other swept rune's output must tokenize. Quick sweeps all must-blank runes and a stride of the rest, thorough every code point.",
    note="Generated content never contains % or $; must-blank is a lower bound; the tokenizer is the harness's own."),
 "C11": dict(level="exploration", design="3/C11", technique="round-trip monitor: harness encoder -> real parser (hook and real pipeline under back-pressure) -> rune events; exhaustive per charset",
    text="Every Unicode scalar in UTF-8 and every round-tripping code point of 22 stateless legacy charsets, whole and split at every byte boundary; seeded strings under cuts; paste brackets and focus reports on all entries; text through the real inputLoop/mainLoop with a stalled poller, split across two reads under a stalled main loop, pasted into a modelled terminal that brackets only in mode 2004 (across Suspend/Resume), typed across cancelled and restarted ChannelEvents pumps, trickling byte by byte (15 ms apart), and on real screens under each locale spelling (C.UTF-8, POSIX.UTF-8, modifiers).",
    note="x/text codecs define the charsets; ISO-2022-JP and HZ excluded by the statement."),
 "C12": dict(level="exploration", design="3/C12", technique="independent xterm mouse-protocol decoder vs the real parser; exhaustive code/coordinate sweeps, stateful sweeps and seeded histories",
    text="SGR codes 0..255 x finals x boundary coordinates on fresh state and after a press (with a following motion report); after a wheel impulse from idle, with a lone ESC in front, two reports or a report and text in one read (every introducer style); legacy X11 reports over all button bytes and a coordinate grid incl. bytes below 32 (thorough: all 256^2); 8-bit CSI in 8-bit and UTF-8 locales; decoding under all application-mode combinations; seeded press/motion/wheel/release histories against a held-button model; live drags on a real screen with an API call (mode changes, Suspend/Resume, Sync) between press and motion.",
    note="Button identity compared for codes 0..127 except wheel left/right; three-valued after reports the protocol never generates."),
 "C13": dict(level="exploration", design="3/C13", technique="write-stamp monitor on the reference terminal: which cells each Show() wrote, against the set the shadow model allows",
    text="Same histories as C01 (incl. identical re-stores via SetContent/SetCell); per Show the cells that received text must lie in the allowed set (changed since previous Show, wide-rune neighbours, unlocked cells, the bottom-right helper cells); locked cells never written; unlocked cells repainted; idle Show writes nothing.",
    note="'Changed' means set to something different at any time since the previous Show; assumptions of C01."),
 "C14": dict(level="exploration", design="3/C14", technique="exhaustive registry enumeration through the verif hook with strict reference interpreter, reference SGR interpreter and all ordered lookup pairs against a pristine snapshot",
    text="Every name/alias resolves with cursor addressing; every parameterized field passes strict evaluation with the parameters the library passes; colour count vs strings (every index interpreted); key prefix freedom; static strings tokenize; -256color/-truecolor synthesis vs base + standard strings; unknown names incl. known names and suffixes with junk attached; COLORTERM/TCELL_TRUECOLOR matrix incl. screen-level effect; every ordered pair of lookups over ~300 names compared with a fresh lookup.",
    note="-256color synthesis only demanded for bases with a -color/-88color entry; other environments use a third of the universe as first lookups."),
 "C17": dict(level="exploration", design="3/C17", technique="reference terminal with the harness's own legacy-charset decoders and acsc map, checking the display chain rune -> ACS glyph -> registered fallback -> '?' cell by cell, plus CanDisplay agreement",
    text="Real terminfo screens under LC_ALL for each of 22 stateless legacy charsets + US-ASCII + UTF-8 on entries with and without an ACS map; every swept rune (quick: glyph/fallback tables, Latin, box drawing, a stride of the BMP; thorough: whole BMP) as narrow, wide and base+combining content; fallback registration histories (incl. runes with an ACS glyph, an Unregister as the first change, a second-screen probe); the locale expressed in the four POSIX ways (empty LC_ALL + LC_CTYPE, LANG only, LC_CTYPE over LANG); half of the locale groups with TCELL_ALTSCREEN=disable; a caller-supplied description with acsc but no smacs; every other batch drawn over other content; the whole check again in a child process under RUNEWIDTH_EASTASIAN=1.",
    note="x/text codecs define the charsets; the glyph-name table maps acsc names to tcell's exported Rune* constants; registered fallbacks at most as wide as the cell."),
 "C18": dict(level="exploration", design="3/C18", technique="lock-step shadow-model monitor on SimulationScreen (GetContents/GetCursor) and sentinel-delimited FIFO checks of injected events",
    text="Seeded draw histories in UTF-8 and 9 legacy charsets with full-grid comparison of Runes/Style/Bytes after every Show/Sync, SetSize overlap + resize event, cursor query; fallback registration histories (register / re-register / unregister, each followed by a restyle, a Sync or a rewrite); InjectKey/InjectMouse batches of 1-60 events (mouse positions inside, on and beyond the edges) and InjectKeyBytes of every character of each charset and of seeded strings up to 50 characters ending in a multi-byte character, all delimited by a sentinel key so that no verdict depends on time.",
    note="Column covered by a wide rune is don't-care; queue bounded by design: the injector is held back while the concurrent poller drains."),
 "C19": dict(level="exploration", design="3/C19", technique="js/wasm build of a monitor program run under Node with recording JavaScript stubs: shadow-model comparison of drawCell calls, callback table sweep, exhaustive lifecycle sequences with step-counted deadlock detection",
    text="Compiles cmd/wasmchk for js/wasm against /repo (a compile error in tcell is the violation), then under Node: all 780 sequences over Suspend/Resume/SetSize(new)/SetSize(current)/Fini up to length 4 with a Size() probe after each call (blocked = not finished after 2000 yields on the single thread); every WebKeyNames name x 16 modifier sets, mouse handlers x which x modifiers x all ordered pairs of 9 flag settings, paste/focus; seeded draw histories compared cell by cell and per-Show drawCell target sets (thorough: 3000 histories over 16 Node processes).",
    note="The real DOM code of tcell.js is not executed; mouse expectations restricted to unambiguous cases."),
 "C06": dict(level="fault_enumeration", design="3/C06", technique="fault enumeration over queue fill levels, reader states and concurrent actors at shutdown, in worker child processes, with a structural goroutine-dump classifier (deadlock) and a draw step counter (livelock); seeded schedule controller at build-tagged schedule points",
    text="Every event-queue fill 0..cap, every chunk-queue fill 0..cap with the main loop parked, reader parked on the send, reader held between Read and send by a gate, Read errors; x Fini / Suspend / Suspend-Resume-Fini; x none/poller/poster/Show loop/resize storm/flood with a burst drainer; a lone ESC or a stalled redraw before the shutdown; thousands of tries of the race for the last queue slot (input path vs PostEvent, released through the lock-free queue-level hook); the real devTty on a pty under a SIGWINCH storm and a resize after the last Resume; Tty.Start failing at Resume; Resume/Suspend/Fini from a second goroutine inside the unlocked window of a Suspend; panics in shutdown calls; read-spin livelock witness; plus seeded random schedules. Verdict per scenario: returned, or structural deadlock/livelock witness; post-conditions after Fini, Suspend and Resume.",
    note="Liveness restated as bounded progress with structural witnesses; watchdog expiry alone is inconclusive; one terminal entry (xterm-256color) - the shutdown path does not depend on the entry."),
 "C05": dict(level="exploration", design="3/C05", technique="recorded client-boundary histories with unique ids checked offline (exactly-once, FIFO, conservation of posts, timestamp bounds), porcupine linearizability of Post/Poll/HasPending against a capacity-agnostic FIFO model, under the Go race detector with schedule-point perturbation",
    text="Feeder, 1-4 posters, resize storm and a poller in four modes (eager, slow, absent until both queues are full and longer than the escape timeout, bursty) on a real screen; every delivered event is matched against the id-carrying input stream and the posters' return values; When() bounds; HasPending-then-Poll, also asked thousands of times while the main loop is held up by a redraw on a slow tty with undecodable/incomplete/plain input waiting (verdict: the poller goroutine found parked inside PollEvent); mouse reports with wheel, extra-button, modifier and motion codes; events posted before Init; PollEvent loops and ChannelEvents pumps kept across Suspend/Resume; input that fills the reader's buffer exactly; lone ESC + resize; ChannelEvents order and closing.",
    note="Resize events excluded (dropped on a full queue by design); a history in which the feeder itself paused > 20 ms inside a sequence is inconclusive for decoding; histories sampled."),
 "C10": dict(level="exploration", design="3/C10", technique="Go race detector (-race, halt_on_error=0, log files) over all pairs of Screen methods run concurrently with the library's own goroutines, in worker processes; report parsing and de-duplication by outermost tcell entry points; write-block contiguity and well-formedness on the reference terminal",
    text="Every unordered pair (incl. self-pairs) of 37 Screen methods on a terminfo screen and of 36 on a SimulationScreen, two goroutines in tight loops (quick 100, thorough 4000 iterations; Show and Sync loops 500) on a styled 40x12 screen (one Sync > 4 KiB) with the input feeder (incl. lone ESC + silence), resize notifier and event drain running, lifecycle pairs under the environment switches, encoder users under a stateful-codec locale, jobs on the library's own devTty over a pseudo terminal, plus seeded sets of 3-5 methods; any DATA RACE report with a tcell frame, any panic or runtime fatal error, any write block ending inside a sequence, malformed output, or the writes of one Show/Sync interleaved with a write of another goroutine is a violation. A race report counts against tcell when the racing access of both stacks is tcell's.",
    note="The detector sees only executed paths within its history window; lifecycle calls (Suspend/Resume, Fini) are not paired with each other; PollEvent and ChannelEvents never together."),
}
PENDING = {}

def main():
    props = [json.loads(l) for l in open(os.path.join(V, "properties.jsonl"))]
    hooks_commits = subprocess.run(["git", "-C", "/repo", "log", "--format=%H %s", "--grep=^verif hooks"], capture_output=True, text=True).stdout.strip().splitlines()
    checks, na = [], []
    for p in props:
        i = p["id"]
        if i in CHECKS:
            c = CHECKS[i]
            checks.append({
                "property_id": i,
                "quick_cmd": "./run.sh %s quick" % i,
                "thorough_cmd": "./run.sh %s thorough" % i,
                "evidence_file": "/verif/evidence/%s.json" % i,
                "replay_cmd_template": "./run.sh replay {path}",
                "engine": c.get("engine", "vcheck"),
                "level_claimed": {"category": c["level"], "text": c["text"], "design_ref": "DESIGN.md §" + c["design"]},
                "level_note": c["note"],
                "technique": c["technique"],
            })
        else:
            na.append({"property_id": i, "reason": PENDING.get(i, "monitor designed (DESIGN.md §3) but not built yet in this tree; no claim is made")})
    m = {
        "version": 1,
        "setup_cmd": "./run.sh setup",
        "hooks": {
            "guard": "verif (Go build tag)",
            "enable": "go build -tags verif (the harness module replaces github.com/gdamore/tcell/v2 => /repo)",
            "baseline_off_cmd": "cd /repo && GOFLAGS=-mod=mod GOPROXY=off GOSUMDB=off GOTOOLCHAIN=local go test -json -vet=off -count=1 -timeout 25m ./...",
            "source_commits": [l.split()[0] for l in hooks_commits],
            "add_only": True,
        },
        "engines": [
            {"name": "vcheck", "path": "/verif/harness/cmd/vcheck", "serves_properties": sorted(CHECKS), "kind_free_text": "Go binary built with -tags verif against /repo's working tree; runs the real tcell code under generated workloads with reference-model monitors, trace checkers and the race detector (vcheck-race)"},
        ],
        "checks": checks,
        "not_applicable": na,
        "notes": "All commands run from /verif; VERIF_SEED selects the seed (default 1). Exit 0 held / 1 violation (VIOLATION line) / 2 inconclusive (observed too little) / 3 harness or build failure. Known findings: /verif/known_findings.json.",
    }
    json.dump(m, open(os.path.join(V, "MANIFEST.json"), "w"), indent=1)
    print("claimed:", len(checks), "not_applicable:", len(na))

if __name__ == "__main__":
    main()
