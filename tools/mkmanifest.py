#!/usr/bin/env python3
"""Regenerates /verif/MANIFEST.json from the table below (claimed checks) —
every property without an entry is listed under not_applicable with the reason
given in PENDING."""
import json, os, subprocess
V = os.path.dirname(os.path.dirname(os.path.abspath(__file__)))

CHECKS = {
 "C07": dict(level="exploration", design="3/C07", technique="differential reference-model monitor (independent terminfo(5) interpreter, ncurses cross-check) over enumerated database domains and generated programs",
    text="Runs tcell's TParm on every parameterized string of the database over its parameter domain (exhaustive: cursor 0..299^2 quick / 0..1023^2 thorough, colour 0..255, RGB lattice quick / all 2^24 thorough) and on seeded well-formed programs of the terminfo(5) grammar, comparing each output with an independently written stack machine; random/truncated strings for robustness. Held = no disagreement on what was run.",
    note="Trusted: the tiref interpreter (cross-checked against ncurses tparm on integer-only programs in every run) and the terminfo(5) reading; programs where the reference reports a strict-mode fault are excluded."),
 "C02": dict(level="exploration", design="3/C02", technique="differential trace monitor on the real input parser (synchronous verif hook): one-read vs partitioned decoding, framing oracle, pipeline cross-check",
    text="Feeds seeded token strings and random byte strings to tcell's real collectEventsFromInput for every database entry, in one read and under all (n<=10) or many partitions with no expiry in between, and requires identical event lists, zero leftover after expiry and no panic; state-free token strings must decode to the concatenation of their tokens; a sample goes through the real inputLoop/mainLoop/PollEvent path.",
    note="Assumes expire=false on every chunk models 'no timeout in between'; the 50 ms timer itself is exercised only by C06. Sampled, not exhaustive, over strings."),
 "C03": dict(level="exploration", design="3/C03", technique="exhaustive enumeration of the key tables of all database entries through the real parser, against acceptance sets derived independently from the entry's field names and an independent xterm modifier encoder",
    text="Every Key* field of every entry, every control byte, DEL, lone ESC, the Alt prefix, every xterm modifier parameter 2..16 on cursor/editing/function keys, prefix-freedom of descriptions and built tables, ordered pairs (sampled in quick, all in thorough) and sampled triples.",
    note="Trusted: the mapping field name -> (key, modifiers) and the xterm modifier encoding written in the harness; triples are sampled."),
 "C08": dict(level="exploration", design="3/C08", technique="lock-step reference-model monitor of the public CellBuffer API with a three-valued dirty oracle",
    text="Seeded histories of SetContent/Fill/Resize/Invalidate/SetDirty/LockCell/UnlockCell on a real CellBuffer; after every operation every cell and the out-of-range ring are compared with a reference array (content exactly, Dirty must-true/must-false/unconstrained).",
    note="Width from go-runewidth (non East Asian); Dirty after Resize demanded only when dimensions change; histories are sampled."),
 "C15": dict(level="exploration", design="3/C15", technique="differential monitor: independent padding grammar, per-family cursor-address decoders and the reference SGR interpreter; exhaustive over short strings and over the 0..300 grids",
    text="TPuts output vs an independent $<...> grammar for every string up to length 6 (quick) / 7 (thorough) over an 11-symbol alphabet plus random longer ones; TGoto for every entry x 301x301 positions decoded by the entry's addressing family; TColor for every entry x (-1..300)^2 interpreted by the reference SGR interpreter; two sound timing directions.",
    note="Cursor-addressing family is assigned by the harness from the entry name; timing checks only use directions a loaded machine cannot falsify."),
 "C16": dict(level="exploration", design="3/C16", technique="exhaustive comparison with independent references (xterm palette formula, CSS keyword table, own sRGB->CIELAB CIE76)",
    text="All 256 palette indices, all CSS3 keywords (both directions), all 2^24 RGB values through every conversion, invalid/special colours; FindColor against the 8/16/88/256 palettes on a lattice + random (quick) or all 2^24 (thorough) and random palettes including equal-size runs.",
    note="CIELAB from sRGB primaries and D65 at full precision; ties within 1e-9 accepted."),
 "C20": dict(level="exploration", design="3/C20", technique="reference-model monitor with recording parent View and recording child widgets; exact rational share oracle",
    text="Seeded ViewPort geometries/op sequences checked call by call at the recording parent (mapping, clipping, offset limits in inside-before => inside-after form) and seeded BoxLayouts (<= 8 children, nested) checked from the ViewPorts handed to children and from what a full Draw paints on the root: order, disjointness, containment, preferred extent, exact surplus shares.",
    note="The rectangle of a ViewPort is what GetPhysical/Size report; nested layouts are not re-oriented after creation (the statement does not say when a child's changed preferred size must be picked up)."),
}
PENDING = {}

def main():
    props = [json.loads(l) for l in open(os.path.join(V, "properties.jsonl"))]
    hooks_commits = subprocess.run(["git", "-C", "/repo", "log", "--format=%H %s", "--grep=^verif hooks"], capture_output=True, text=True).stdout.strip().splitlines()
    checks, na = [], []
    for p in props:
        i = p["id"]
        if i in CHECKS:
            c = CHECKS[i]
            checks.append({
                "property_id": i,
                "quick_cmd": "./run.sh %s quick" % i,
                "thorough_cmd": "./run.sh %s thorough" % i,
                "evidence_file": "/verif/evidence/%s.json" % i,
                "replay_cmd_template": "./run.sh replay {path}",
                "engine": c.get("engine", "vcheck"),
                "level_claimed": {"category": c["level"], "text": c["text"], "design_ref": "DESIGN.md §" + c["design"]},
                "level_note": c["note"],
                "technique": c["technique"],
            })
        else:
            na.append({"property_id": i, "reason": PENDING.get(i, "monitor designed (DESIGN.md §3) but not built yet in this tree; no claim is made")})
    m = {
        "version": 1,
        "setup_cmd": "./run.sh setup",
        "hooks": {
            "guard": "verif (Go build tag)",
            "enable": "go build -tags verif (the harness module replaces github.com/gdamore/tcell/v2 => /repo)",
            "baseline_off_cmd": "cd /repo && GOFLAGS=-mod=mod GOPROXY=off GOSUMDB=off GOTOOLCHAIN=local go test -json -vet=off -count=1 -timeout 25m ./...",
            "source_commits": [l.split()[0] for l in hooks_commits],
            "add_only": True,
        },
        "engines": [
            {"name": "vcheck", "path": "/verif/harness/cmd/vcheck", "serves_properties": sorted(CHECKS), "kind_free_text": "Go binary built with -tags verif against /repo's working tree; runs the real tcell code under generated workloads with reference-model monitors, trace checkers and the race detector (vcheck-race)"},
        ],
        "checks": checks,
        "not_applicable": na,
        "notes": "All commands run from /verif; VERIF_SEED selects the seed (default 1). Exit 0 held / 1 violation (VIOLATION line) / 2 inconclusive (observed too little) / 3 harness or build failure. Known findings: /verif/known_findings.json.",
    }
    json.dump(m, open(os.path.join(V, "MANIFEST.json"), "w"), indent=1)
    print("claimed:", len(checks), "not_applicable:", len(na))

if __name__ == "__main__":
    main()
