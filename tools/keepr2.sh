#!/bin/bash
# usage: tools/keepr2.sh <dir under /tmp/mut> <Cnn> : confirm, check and keep every mutant of a round-2 directory
dir=$1; id=$2
for d in /tmp/mut/$dir/*/; do
  d=${d%/}; x=$(basename $d)
  [ -f $d/patch.diff ] || continue
  c=$(RACEFLAG=$RACEFLAG tools/confirmmut.sh $d)
  k=$(MUTLINES=3 tools/mutcheck.sh $d/patch.diff $id quick | cut -c1-300)
  echo "$c"; echo "$k"
  python3 tools/keepmut.py $dir $x "$c" "$k" > /dev/null
  python3 - "$dir" "$x" "$id" <<'PY'
import json,sys
d,x,pid=sys.argv[1:4]
p='/verif/seeded/%s-%s/meta.json'%(d,x)
m=json.load(open(p)); m['property']=pid; m['breaks']=pid; m['round']=2
json.dump(m,open(p,'w'),indent=1)
PY
done
