#!/bin/bash
# usage: tools/mutcheck.sh <patch.diff> <Cnn> [tier]   -- applies the patch to /repo, runs the check, undoes the patch
p=$1; id=$2; tier=${3:-quick}
cd /repo || exit 9
if ! git diff --quiet; then echo "/repo dirty"; exit 9; fi
if ! git apply "$p" 2>/dev/null; then
  if ! git apply -3 "$p" 2>/dev/null; then echo "PATCH DOES NOT APPLY: $p"; git reset -q --hard HEAD; exit 8; fi
  git reset -q
fi
mkdir -p /tmp/mut-evidence
( cd /verif && VERIF_EVIDENCE_DIR=/tmp/mut-evidence VERIF_DIR=/verif timeout 3600 ./run.sh $id $tier > /tmp/mutcheck.$$.log 2>&1 ); rc=$?
git -C /repo checkout -- .
nviol=$(grep -c '^VIOLATION' /tmp/mutcheck.$$.log)
echo "$id $p tier=$tier exit=$rc violations=$nviol"
grep -A2 '^VIOLATION' /tmp/mutcheck.$$.log | head -${MUTLINES:-7}
grep -E 'BUILD FAILED|INCONCLUSIVE' /tmp/mutcheck.$$.log | head -3
rm -f /tmp/mutcheck.$$.log
