#!/bin/bash
# usage: tools/mutall2.sh <dir under /tmp/mut> <Cnn> [tier]
dir=$1; id=$2; tier=${3:-quick}
for d in /tmp/mut/$dir/*/; do
  d=${d%/}
  [ -f $d/patch.diff ] || continue
  tools/confirmmut.sh $d
  MUTLINES=4 tools/mutcheck.sh $d/patch.diff $id $tier | cut -c1-500
done
