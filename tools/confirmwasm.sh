#!/bin/bash
# usage: tools/confirmwasm.sh <dir with patch.diff + main.go (js/wasm demo)>
d=$1
export GOFLAGS=-mod=mod GOPROXY=off GOSUMDB=off GOTOOLCHAIN=local
wt=/tmp/wt/confirmw.$$
git -C /repo worktree add -q --detach $wt HEAD || exit 9
trap 'git -C /repo worktree remove --force '$wt' 2>/dev/null' EXIT
cd $wt
mkdir -p _seeded_demo && cp $d/main.go _seeded_demo/main.go
W=$(go env GOROOT)/misc/wasm/wasm_exec_node.js
run() { GOOS=js GOARCH=wasm go build -o /tmp/confirmw.$$.wasm ./_seeded_demo 2>/tmp/confirmw.$$.err || { echo BUILDFAIL; cat /tmp/confirmw.$$.err | head -3; return 2; }; timeout 120 node $W /tmp/confirmw.$$.wasm >/tmp/confirmw.$$.out 2>&1; echo $?; }
res=""
if git apply $d/patch.diff 2>/dev/null; then res="applies=yes"; else echo "$d applies=no"; exit 1; fi
go build ./... 2>/dev/null && GOOS=js GOARCH=wasm go build . 2>/dev/null && res="$res build=ok(native+wasm)" || res="$res build=FAIL"
go test -vet=off -count=1 ./... >/dev/null 2>&1 && res="$res suite=pass" || res="$res suite=FAIL"
rc=$(run); res="$res demo_with_patch_exit=$rc"
git checkout -q -- .
rc=$(run); res="$res demo_clean_exit=$rc"
rm -f /tmp/confirmw.$$.*
echo "$d $res"
