#!/usr/bin/env python3
import json, sys
# usage: addfinding.py <prop> <status> <signature> <commit-or--> <what>
p, status, sig, commit, what = sys.argv[1:6]
f = '/verif/known_findings.json'
d = json.load(open(f))
e = {"property": p, "signature": sig, "status": status, "what": what}
if commit != '-':
    e["commit"] = commit
if status == "fixed":
    e["line"] = "fixed: property=%s %s %s" % (p, commit, what)
d.append(e)
json.dump(d, open(f, 'w'), indent=1)
