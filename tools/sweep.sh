#!/bin/bash
# usage: tools/sweep.sh [tier] [seed...]  -- runs every claimed check and prints one line each
tier=${1:-quick}; shift
seeds=${@:-1}
cd /verif
ids=$(python3 -c "import json;print(' '.join(c['property_id'] for c in json.load(open('MANIFEST.json'))['checks']))")
for s in $seeds; do
  for id in $ids; do
    t0=$(date +%s)
    VERIF_SEED=$s ./run.sh $id $tier > /tmp/sweep.$$.log 2>&1; rc=$?
    t1=$(date +%s)
    nv=$(grep -c '^VIOLATION' /tmp/sweep.$$.log); nk=$(grep -c '^KNOWN-FINDING' /tmp/sweep.$$.log); ni=$(grep -c 'inconclusive case' /tmp/sweep.$$.log)
    echo "seed=$s $id $tier exit=$rc violations=$nv known=$nk incon_notes=$ni $((t1-t0))s"
    [ $rc != 0 ] && grep -A2 -m3 '^VIOLATION\|^INCONCLUSIVE' /tmp/sweep.$$.log | cut -c1-300
  done
done
rm -f /tmp/sweep.$$.log
