#!/usr/bin/env python3
# usage: tools/markmissed.py <seeded id> <what the check learnt> : records that the check missed the change when it arrived
import json,sys
p='/verif/seeded/%s/meta.json'%sys.argv[1]
m=json.load(open(p)); m['missed_at_first']=True; m['strengthening']=sys.argv[2]
json.dump(m,open(p,'w'),indent=1)
