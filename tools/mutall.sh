#!/bin/bash
# usage: tools/mutall.sh <Cnn> [tier] : confirm + check every mutant in /tmp/mut/<Cnn>/*
id=$1; tier=${2:-quick}
for d in /tmp/mut/$id/*/; do
  d=${d%/}
  [ -f $d/patch.diff ] || continue
  tools/confirmmut.sh $d
  MUTLINES=4 tools/mutcheck.sh $d/patch.diff $id $tier | cut -c1-400
done
