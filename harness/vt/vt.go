// Package vt is the reference terminal of the harness: a strict ECMA-48
// tokenizer plus an emulator of the controls the ECMA-48-family entries of
// tcell's database use.  It is written from ECMA-48 / DEC STD 070 / xterm
// ctlseqs, not from tcell.
package vt

import (
	"fmt"
	"os"
	"strconv"
	"strings"
	"unicode/utf8"

	runewidth "github.com/mattn/go-runewidth"
)

type ColKind int

const (
	Default ColKind = iota
	Indexed
	RGB
)

type Col struct {
	K ColKind
	V int
}

func (c Col) String() string {
	switch c.K {
	case Indexed:
		return fmt.Sprintf("idx%d", c.V)
	case RGB:
		return fmt.Sprintf("#%06x", c.V)
	}
	return "default"
}

type Pen struct {
	Fg, Bg, Ul                            Col
	Bold, Dim, Italic, Blink, Rev, Strike bool
	UlStyle                               int // 0 none 1 single 2 double 3 curly 4 dotted 5 dashed
	Url, UrlID                            string
}

type Cell struct {
	R      rune
	AcsSet []rune // when printed in an alternate character set: every rune whose acsc name maps to the byte
	Comb   []rune
	Cont   bool // right half of a wide char
	Wide   bool
	Pen    Pen
	Stamp  int
}

// Decoder decodes one character of a legacy charset from the start of b.
// n == 0 with more == true means b is a proper prefix of a character;
// n == 0 with more == false means the first byte is invalid.
type Decoder func(b []byte) (r rune, n int, more bool)

type Term struct {
	W, H        int
	Cells       []Cell
	X, Y        int
	Pending     bool
	Pen         Pen
	G           [2]byte
	Shift       int
	AltFont     bool
	Modes       map[int]bool // DEC private
	AModes      map[int]bool
	CursorVis   bool
	CursorStyle int // -1 never set
	CursorColor string
	Title       string
	TitleStack  []string
	Alt         bool
	saved       []Cell
	sx, sy      int
	KeypadApp   bool
	Unknown     map[string]int
	Errors      []string
	NErrors     int
	Stamp       int
	Acs         map[byte][]rune
	FFClears    bool
	Clip        string
	Bells       int
	cond        *runewidth.Condition
	// AcsAlways: the description has an acsc map but no smacs: the glyph bytes belong to the
	// terminal's one and only character set (PC consoles) and are shown as their glyphs
	AcsAlways    bool
	Dec          Decoder
	Residue      bool // report '%' anywhere and "$<" in text as parameter-language residue
	lastX, lastY int  // cell of the most recently printed base character (-1 if cursor moved since)

	// tokenizer
	st      int
	seq     []byte // bytes of the control being collected (for messages)
	params  []byte
	inter   []byte
	priv    byte
	text    []byte // pending bytes of a multi-byte character
	oscEsc  bool
	prevTxt byte // previous text byte (for "$<" detection)

	Controls  int // complete controls seen
	TextRunes int
}

const (
	sGround = iota
	sEsc
	sEscInter
	sCsiParam
	sCsiInter
	sOsc
	sScs
)

func New(w, h int) *Term {
	t := &Term{W: w, H: h, Modes: map[int]bool{7: true, 25: true}, AModes: map[int]bool{}, CursorVis: true, CursorStyle: -1,
		Unknown: map[string]int{}, Residue: true}
	t.G = [2]byte{'B', 'B'}
	t.Cells = make([]Cell, w*h)
	for i := range t.Cells {
		t.Cells[i].R = ' '
	}
	t.cond = runewidth.NewCondition()
	t.cond.EastAsianWidth = os.Getenv("RUNEWIDTH_EASTASIAN") == "1" // A2: terminal and library agree on widths
	t.lastX = -1
	return t
}

// InGround reports whether the tokenizer is between controls/characters.
func (t *Term) InGround() bool { return t.st == sGround && len(t.text) == 0 }

func (t *Term) Resize(w, h int) {
	n := make([]Cell, w*h)
	for i := range n {
		n[i].R = ' '
	}
	for y := 0; y < h && y < t.H; y++ {
		for x := 0; x < w && x < t.W; x++ {
			n[y*w+x] = t.Cells[y*t.W+x]
		}
	}
	// a wide character cut in half by the new right margin is erased
	for y := 0; y < h; y++ {
		if w > 0 && n[y*w+w-1].Wide {
			n[y*w+w-1] = Cell{R: ' ', Pen: n[y*w+w-1].Pen}
		}
	}
	t.Cells, t.W, t.H = n, w, h
	if t.X >= w {
		t.X = w - 1
	}
	if t.Y >= h {
		t.Y = h - 1
	}
	if t.X < 0 {
		t.X = 0
	}
	if t.Y < 0 {
		t.Y = 0
	}
	t.Pending = false
	t.saved = nil
}

func (t *Term) At(x, y int) *Cell { return &t.Cells[y*t.W+x] }

func (t *Term) errf(f string, a ...interface{}) {
	t.NErrors++
	if len(t.Errors) < 20 {
		t.Errors = append(t.Errors, fmt.Sprintf(f, a...))
	}
}

func (t *Term) unknown(k string) { t.Unknown[k]++ }

func (t *Term) clearAll() {
	for i := range t.Cells {
		t.Cells[i] = Cell{R: ' ', Pen: Pen{Bg: t.Pen.Bg}, Stamp: 0}
	}
}

func (t *Term) breakWide(x, y int) {
	c := t.At(x, y)
	if c.Cont && x > 0 {
		l := t.At(x-1, y)
		*l = Cell{R: ' ', Pen: l.Pen, Stamp: l.Stamp}
	}
	if c.Wide && x+1 < t.W {
		r := t.At(x+1, y)
		*r = Cell{R: ' ', Pen: r.Pen, Stamp: r.Stamp}
	}
	c.Cont, c.Wide = false, false
}

func (t *Term) put(r rune, acs []rune) {
	t.TextRunes++
	w := t.cond.RuneWidth(r)
	if acs != nil {
		w = 1 // a glyph of the alternate character set always fills one cell, whatever the width of the rune it stands for
	}
	if w == 0 {
		// combining: attach to the base character just printed
		if t.lastX < 0 {
			t.errf("combining U+%04X with no preceding base character", r)
			return
		}
		c := t.At(t.lastX, t.lastY)
		c.Comb = append(c.Comb, r)
		return
	}
	if t.W == 0 || t.H == 0 {
		return
	}
	if t.Pending {
		if t.Modes[7] {
			t.X = 0
			if t.Y < t.H-1 {
				t.Y++
			} else {
				t.errf("scroll: autowrap at bottom row")
			}
		}
		t.Pending = false
	}
	if w == 2 && t.X == t.W-1 {
		// does not fit: real terminals wrap or clip; tcell must never send this
		t.errf("wide char U+%04X at last column (%d,%d)", r, t.X, t.Y)
		return
	}
	t.breakWide(t.X, t.Y)
	c := t.At(t.X, t.Y)
	*c = Cell{R: r, AcsSet: acs, Pen: t.Pen, Stamp: t.Stamp, Wide: w == 2}
	t.lastX, t.lastY = t.X, t.Y
	if w == 2 {
		t.breakWide(t.X+1, t.Y)
		c2 := t.At(t.X+1, t.Y)
		*c2 = Cell{R: 0, Pen: t.Pen, Stamp: t.Stamp, Cont: true}
	}
	t.X += w
	if t.X >= t.W {
		t.X = t.W - 1
		if t.Modes[7] {
			t.Pending = true
		}
	}
}

func (t *Term) altActive() bool { return t.AltFont || t.G[t.Shift] == '0' || t.AcsAlways }

// Feed interprets one Write block.
func (t *Term) Feed(b []byte) {
	t.Stamp++
	for _, c := range b {
		t.step(c)
	}
}

// FeedQuiet interprets bytes without advancing the write stamp (used to inject
// external corruption).
func (t *Term) FeedQuiet(b []byte) {
	st := t.Stamp
	t.Stamp = 0
	for _, c := range b {
		t.step(c)
	}
	t.Stamp = st
}

func (t *Term) flushText(reason string) {
	if len(t.text) > 0 {
		t.errf("incomplete multi-byte character %q before %s", t.text, reason)
		t.text = nil
	}
}

func (t *Term) step(c byte) {
	if t.Residue && c == '%' {
		t.errf("parameter-language residue: '%%' in output (state %d, after %q)", t.st, t.seq)
	}
	switch t.st {
	case sGround:
		t.ground(c)
	case sEsc:
		t.seq = append(t.seq, c)
		switch {
		case c == '[':
			t.st, t.params, t.inter, t.priv = sCsiParam, t.params[:0], t.inter[:0], 0
		case c == ']':
			t.st, t.params, t.oscEsc = sOsc, t.params[:0], false
		case c == '(' || c == ')':
			t.inter = append(t.inter[:0], c)
			t.st = sScs
		case c >= 0x20 && c <= 0x2f:
			t.inter = append(t.inter[:0], c)
			t.st = sEscInter
		case c >= 0x30 && c <= 0x7e:
			t.st = sGround
			t.Controls++
			t.doEsc(c)
		default:
			t.errf("bad byte %#x after ESC", c)
			t.st = sGround
			if c == 0x1b {
				t.st = sEsc
				t.seq = append(t.seq[:0], c)
			}
		}
	case sScs:
		t.st = sGround
		t.Controls++
		if c != 'B' && c != '0' {
			if c >= 0x30 && c <= 0x7e {
				t.unknown(fmt.Sprintf("ESC %c %c", t.inter[0], c))
			} else {
				t.errf("bad charset designator %#x", c)
				if c == 0x1b {
					// ESC aborts the sequence and starts a new one (ECMA-48), it is not swallowed
					t.st = sEsc
					t.seq = append(t.seq[:0], c)
				}
			}
			return
		}
		if t.inter[0] == '(' {
			t.G[0] = c
		} else {
			t.G[1] = c
		}
	case sEscInter:
		switch {
		case c >= 0x20 && c <= 0x2f:
			t.inter = append(t.inter, c)
		case c >= 0x30 && c <= 0x7e:
			t.st = sGround
			t.Controls++
			t.unknown(fmt.Sprintf("ESC %s %c", t.inter, c))
		default:
			t.errf("bad byte %#x in ESC intermediate sequence", c)
			t.st = sGround
			if c == 0x1b {
				t.st = sEsc
				t.seq = append(t.seq[:0], c)
			}
		}
	case sCsiParam:
		t.seq = append(t.seq, c)
		switch {
		case c >= '<' && c <= '?':
			if len(t.params) == 0 && t.priv == 0 {
				t.priv = c
			} else {
				t.errf("private marker %q not at start of CSI parameters (%q)", c, t.seq)
			}
		case (c >= '0' && c <= '9') || c == ';' || c == ':':
			t.params = append(t.params, c)
		case c >= 0x20 && c <= 0x2f:
			t.inter = append(t.inter, c)
			t.st = sCsiInter
		case c >= 0x40 && c <= 0x7e:
			t.st = sGround
			t.Controls++
			t.doCSI(t.priv, string(t.params), string(t.inter), c)
		default:
			t.errf("malformed CSI %q (byte %#x)", t.seq, c)
			t.st = sGround
			if c == 0x1b {
				t.st = sEsc
				t.seq = append(t.seq[:0], c)
			}
		}
	case sCsiInter:
		t.seq = append(t.seq, c)
		switch {
		case c >= 0x20 && c <= 0x2f:
			t.inter = append(t.inter, c)
		case c >= 0x40 && c <= 0x7e:
			t.st = sGround
			t.Controls++
			if strings.ContainsAny(string(t.inter), "-") {
				t.errf("negative number / residue in CSI %q", t.seq)
			}
			t.doCSI(t.priv, string(t.params), string(t.inter), c)
		default:
			t.errf("malformed CSI %q: parameter or control byte %#x after an intermediate", t.seq, c)
			t.st = sGround
			if c == 0x1b {
				t.st = sEsc
				t.seq = append(t.seq[:0], c)
			}
		}
	case sOsc:
		switch {
		case t.oscEsc:
			t.oscEsc = false
			if c == '\\' {
				t.st = sGround
				t.Controls++
				t.doOSC(string(t.params))
			} else {
				t.errf("unterminated OSC %q (ESC %#x inside)", short(t.params), c)
				t.st = sEsc
				t.seq = append(t.seq[:0], 0x1b)
				t.step2Esc(c)
			}
		case c == 7:
			t.st = sGround
			t.Controls++
			t.doOSC(string(t.params))
		case c == 0x1b:
			t.oscEsc = true
		case c < 0x20 || c == 0x7f:
			t.errf("control %#x inside OSC %q", c, short(t.params))
		default:
			t.params = append(t.params, c)
		}
	}
}

func short(b []byte) string {
	if len(b) > 40 {
		return string(b[:40]) + "…"
	}
	return string(b)
}

// step2Esc re-dispatches the byte after an ESC that aborted a string.
func (t *Term) step2Esc(c byte) {
	t.step(c)
}

func (t *Term) ground(c byte) {
	switch {
	case c == 0x1b:
		t.flushText("ESC")
		t.st = sEsc
		t.seq = append(t.seq[:0], c)
		t.prevTxt = 0
	case len(t.text) > 0:
		t.text = append(t.text, c)
		t.tryText()
	case c < 0x20 || c == 0x7f:
		if t.altActive() && c != 0x0e && c != 0x0f && c != 0x1b {
			if rs, ok := t.Acs[c]; ok { // SCO-style alternate fonts use C0 code points as glyphs
				t.put(rs[0], rs)
				return
			}
		}
		t.lastX = -1
		t.prevTxt = 0
		t.c0(c)
	case c < 0x80:
		if t.Residue && t.prevTxt == '$' && c == '<' {
			t.errf("padding residue \"$<\" in text")
		}
		t.prevTxt = c
		if t.altActive() {
			if rs, ok := t.Acs[c]; ok {
				t.put(rs[0], rs)
				return
			}
		}
		t.put(rune(c), nil)
	default:
		t.prevTxt = 0
		if t.altActive() {
			if rs, ok := t.Acs[c]; ok {
				t.put(rs[0], rs)
				return
			}
		}
		t.text = append(t.text, c)
		t.tryText()
	}
}

func (t *Term) tryText() {
	for len(t.text) > 0 {
		if t.Dec != nil {
			r, n, more := t.Dec(t.text)
			if n == 0 {
				if more && len(t.text) < 8 {
					return
				}
				t.errf("byte %#x undecodable in session charset", t.text[0])
				t.text = t.text[1:]
				continue
			}
			if r < 0x20 || (r >= 0x7f && r < 0xa0) {
				t.errf("control U+%04X as payload (bytes %q)", r, t.text[:n])
			} else {
				t.put(r, nil)
			}
			t.text = t.text[n:]
			continue
		}
		if !utf8.FullRune(t.text) {
			if len(t.text) < 4 {
				// could still be valid: check the prefix is plausible
				if t.text[0] >= 0xc2 && t.text[0] <= 0xf4 {
					ok := true
					for _, b := range t.text[1:] {
						if b&0xc0 != 0x80 {
							ok = false
						}
					}
					if ok {
						return
					}
				}
			}
			t.errf("invalid utf8 byte %#x", t.text[0])
			t.text = t.text[1:]
			continue
		}
		r, n := utf8.DecodeRune(t.text)
		if r == utf8.RuneError && n <= 1 {
			t.errf("invalid utf8 byte %#x", t.text[0])
			t.text = t.text[1:]
			continue
		}
		if r >= 0x80 && r < 0xa0 {
			t.errf("C1 control U+%04X as payload", r)
		} else {
			t.put(r, nil)
		}
		t.text = t.text[n:]
	}
}

func (t *Term) c0(c byte) {
	switch c {
	case 0:
	case 7:
		t.Bells++
	case 8:
		if t.X > 0 {
			t.X--
		}
		t.Pending = false
	case '\r':
		t.X = 0
		t.Pending = false
	case '\n':
		if t.Y < t.H-1 {
			t.Y++
		}
	case 0x0c:
		if t.FFClears {
			t.clearAll()
			t.X, t.Y, t.Pending = 0, 0, false
		} else {
			t.errf("FF in output")
		}
	case 0x0e:
		t.Shift = 1
	case 0x0f:
		t.Shift = 0
	default:
		t.errf("C0 control %#x in output", c)
	}
}

func (t *Term) doEsc(c byte) {
	switch c {
	case '7':
		t.sx, t.sy = t.X, t.Y
	case '8':
		t.X, t.Y, t.Pending = t.sx, t.sy, false
		t.lastX = -1
	case '=':
		t.KeypadApp = true
	case '>':
		t.KeypadApp = false
	case 'M':
		if t.Y > 0 {
			t.Y--
		}
		t.lastX = -1
	case '\\':
		t.errf("stray ST")
	default:
		t.unknown(fmt.Sprintf("ESC %c", c))
	}
}

func (t *Term) doOSC(s string) {
	k := strings.IndexByte(s, ';')
	cmd, rest := s, ""
	if k >= 0 {
		cmd, rest = s[:k], s[k+1:]
	}
	for _, ch := range cmd {
		if ch < '0' || ch > '9' {
			t.errf("non-numeric OSC command %q", short([]byte(s)))
			return
		}
	}
	switch cmd {
	case "2":
		t.Title = rest
	case "8":
		p := strings.SplitN(rest, ";", 2)
		if len(p) != 2 {
			t.errf("bad OSC 8 %q", s)
			return
		}
		t.Pen.UrlID, t.Pen.Url = p[0], p[1]
		if p[1] == "" {
			t.Pen.UrlID = ""
		}
	case "12":
		t.CursorColor = rest
	case "112":
		t.CursorColor = ""
	case "52":
		t.Clip = rest
	default:
		t.unknown("OSC " + cmd)
	}
}

func nums(p string, def int) []int {
	if p == "" {
		return []int{def}
	}
	var out []int
	for _, s := range strings.Split(p, ";") {
		if s == "" {
			out = append(out, def)
			continue
		}
		n, _ := strconv.Atoi(strings.SplitN(s, ":", 2)[0])
		out = append(out, n)
	}
	return out
}

func (t *Term) doCSI(priv byte, params, inter string, f byte) {
	key := fmt.Sprintf("CSI %s%s%s%c", privStr(priv), params, inter, f)
	n := nums(params, 0)
	switch {
	case priv == '?' && (f == 'h' || f == 'l') && inter == "":
		for _, m := range n {
			switch m {
			case 1, 4, 7, 12, 25, 47, 1049, 1000, 1002, 1003, 1004, 1006, 2004:
			default:
				t.unknown(fmt.Sprintf("CSI ?%d%c", m, f))
			}
			on := f == 'h'
			if m == 47 || m == 1049 {
				if on && !t.Alt {
					t.saved = append([]Cell(nil), t.Cells...)
					t.Alt = true
					if m == 1049 {
						t.clearAll()
					}
				} else if !on && t.Alt {
					if len(t.saved) == len(t.Cells) {
						copy(t.Cells, t.saved)
					}
					t.Alt = false
				}
			}
			if m == 25 {
				t.CursorVis = on
			}
			t.Modes[m] = on
		}
	case priv == '?' && f == 'c':
		// linux cursor appearance
	case priv == 0 && (f == 'h' || f == 'l') && inter == "":
		for _, m := range n {
			if m != 34 && m != 4 {
				t.unknown(key)
			}
			t.AModes[m] = f == 'h'
		}
	case priv == '>' && f == 't':
	case priv != 0:
		t.unknown(key)
	case inter == " " && f == 'q':
		t.CursorStyle = n[0]
	case inter == "\"" && f == 'q':
	case inter != "":
		t.unknown(key)
	case f == 'H' || f == 'f':
		t.lastX = -1
		r, c := 1, 1
		if len(n) > 0 && n[0] > 0 {
			r = n[0]
		}
		if len(n) > 1 && n[1] > 0 {
			c = n[1]
		}
		t.Y, t.X = r-1, c-1
		if t.Y >= t.H {
			t.Y = t.H - 1
		}
		if t.X >= t.W {
			t.X = t.W - 1
		}
		if t.Y < 0 {
			t.Y = 0
		}
		if t.X < 0 {
			t.X = 0
		}
		t.Pending = false
	case f == 'J':
		switch n[0] {
		case 2:
			t.clearAll()
		case 0:
			for y := t.Y; y < t.H; y++ {
				for x := 0; x < t.W; x++ {
					if y == t.Y && x < t.X {
						continue
					}
					t.breakWide(x, y)
					*t.At(x, y) = Cell{R: ' ', Pen: Pen{Bg: t.Pen.Bg}}
				}
			}
		default:
			t.unknown(key)
		}
	case f == 'K':
		if n[0] == 0 {
			for x := t.X; x < t.W; x++ {
				t.breakWide(x, t.Y)
				*t.At(x, t.Y) = Cell{R: ' ', Pen: Pen{Bg: t.Pen.Bg}}
			}
		} else {
			t.unknown(key)
		}
	case f == '@':
		t.lastX = -1
		k := n[0]
		if k == 0 {
			k = 1
		}
		y := t.Y
		if t.H == 0 || t.W == 0 {
			return
		}
		// a wide character split by the insertion point is erased
		t.breakWideAtBoundary(t.X, y)
		for x := t.W - 1; x >= t.X+k; x-- {
			*t.At(x, y) = *t.At(x-k, y)
			t.At(x, y).Stamp = t.Stamp
		}
		for x := t.X; x < t.X+k && x < t.W; x++ {
			*t.At(x, y) = Cell{R: ' ', Pen: Pen{Bg: t.Pen.Bg}, Stamp: t.Stamp}
		}
		// a wide character pushed half-way over the right margin is erased
		if last := t.At(t.W-1, y); last.Wide {
			*last = Cell{R: ' ', Pen: last.Pen, Stamp: last.Stamp}
		}
		t.Pending = false
	case f == 'A':
		t.lastX = -1
		if t.Y > 0 {
			t.Y--
		}
	case f == 'D':
		t.lastX = -1
		if t.X > 0 {
			t.X--
		}
		t.Pending = false
	case f == 'm':
		t.sgr(params)
	case f == 't':
		if len(n) >= 1 {
			switch n[0] {
			case 22:
				t.TitleStack = append(t.TitleStack, t.Title)
			case 23:
				if k := len(t.TitleStack); k > 0 {
					t.Title = t.TitleStack[k-1]
					t.TitleStack = t.TitleStack[:k-1]
				}
			case 8:
			default:
				t.unknown(key)
			}
		}
	case f == 'r':
	default:
		t.unknown(key)
	}
}

func (t *Term) breakWideAtBoundary(x, y int) {
	if x > 0 && x < t.W && t.At(x, y).Cont {
		l := t.At(x-1, y)
		*l = Cell{R: ' ', Pen: l.Pen, Stamp: l.Stamp}
		c := t.At(x, y)
		*c = Cell{R: ' ', Pen: c.Pen, Stamp: c.Stamp}
	}
}

func privStr(p byte) string {
	if p == 0 {
		return ""
	}
	return string(p)
}

func (t *Term) sgr(params string) {
	if params == "" {
		params = "0"
	}
	parts := strings.Split(params, ";")
	for k := 0; k < len(parts); k++ {
		p := parts[k]
		sub := strings.Split(p, ":")
		v, _ := strconv.Atoi(sub[0])
		if p == "" {
			v = 0
		}
		ext := func(dst *Col) {
			if len(sub) > 1 { // colon form
				if sub[1] == "5" && len(sub) == 3 {
					i, _ := strconv.Atoi(sub[2])
					if i > 255 {
						t.errf("palette index %d > 255", i)
					}
					*dst = Col{Indexed, i}
				} else if sub[1] == "2" && len(sub) == 6 {
					r, _ := strconv.Atoi(sub[3])
					g, _ := strconv.Atoi(sub[4])
					bb, _ := strconv.Atoi(sub[5])
					if r > 255 || g > 255 || bb > 255 {
						t.errf("rgb component > 255 in %q", params)
					}
					*dst = Col{RGB, r<<16 | g<<8 | bb}
				} else {
					t.errf("bad SGR colour %q", p)
				}
				return
			}
			if k+1 < len(parts) && parts[k+1] == "5" && k+2 < len(parts) {
				i, _ := strconv.Atoi(parts[k+2])
				if i > 255 {
					t.errf("palette index %d > 255", i)
				}
				*dst = Col{Indexed, i}
				k += 2
			} else if k+1 < len(parts) && parts[k+1] == "2" && k+4 < len(parts) {
				r, _ := strconv.Atoi(parts[k+2])
				g, _ := strconv.Atoi(parts[k+3])
				bb, _ := strconv.Atoi(parts[k+4])
				if r > 255 || g > 255 || bb > 255 {
					t.errf("rgb component > 255 in %q", params)
				}
				*dst = Col{RGB, r<<16 | g<<8 | bb}
				k += 4
			} else {
				t.errf("bad SGR extended colour in %q", params)
			}
		}
		switch {
		case v == 0:
			t.Pen = Pen{Url: t.Pen.Url, UrlID: t.Pen.UrlID}
			t.AltFont = false
		case v == 1:
			t.Pen.Bold = true
		case v == 2:
			t.Pen.Dim = true
		case v == 3:
			t.Pen.Italic = true
		case v == 4:
			t.Pen.UlStyle = 1
			if len(sub) > 1 {
				t.Pen.UlStyle, _ = strconv.Atoi(sub[1])
			}
		case v == 5:
			t.Pen.Blink = true
		case v == 7:
			t.Pen.Rev = true
		case v == 9:
			t.Pen.Strike = true
		case v == 10:
			t.AltFont = false
		case v == 11 || v == 12:
			t.AltFont = true
		case v == 21:
			t.Pen.UlStyle = 2
		case v == 22:
			t.Pen.Bold, t.Pen.Dim = false, false
		case v == 23:
			t.Pen.Italic = false
		case v == 24:
			t.Pen.UlStyle = 0
		case v == 25:
			t.Pen.Blink = false
		case v == 27:
			t.Pen.Rev = false
		case v == 29:
			t.Pen.Strike = false
		case v >= 30 && v <= 37:
			t.Pen.Fg = Col{Indexed, v - 30}
		case v == 38:
			ext(&t.Pen.Fg)
		case v == 39:
			t.Pen.Fg = Col{}
		case v >= 40 && v <= 47:
			t.Pen.Bg = Col{Indexed, v - 40}
		case v == 48:
			ext(&t.Pen.Bg)
		case v == 49:
			t.Pen.Bg = Col{}
		case v == 58:
			ext(&t.Pen.Ul)
		case v == 59:
			t.Pen.Ul = Col{}
		case v >= 90 && v <= 97:
			t.Pen.Fg = Col{Indexed, v - 90 + 8}
		case v >= 100 && v <= 107:
			t.Pen.Bg = Col{Indexed, v - 100 + 8}
		default:
			t.unknown("SGR " + p)
		}
	}
}

// VT100 glyph-name table of terminfo(5) acsc (harness's own copy).
var AcsNames = map[byte]rune{
	'+': 0x2192, ',': 0x2190, '-': 0x2191, '.': 0x2193, '0': 0x2588, '`': 0x25C6, 'a': 0x2592,
	'f': 0x00B0, 'g': 0x00B1, 'h': 0x2591, 'i': 0x240B, 'j': 0x2518, 'k': 0x2510, 'l': 0x250C, 'm': 0x2514,
	'n': 0x253C, 'o': 0x23BA, 'p': 0x23BB, 'q': 0x2500, 'r': 0x23BC, 's': 0x23BD, 't': 0x251C, 'u': 0x2524,
	'v': 0x2534, 'w': 0x252C, 'x': 0x2502, 'y': 0x2264, 'z': 0x2265, '{': 0x03C0, '|': 0x2260, '}': 0x00A3, '~': 0x00B7,
}

// BuildAcs builds the byte -> rune-set map of an acsc string.
func BuildAcs(acsc string) map[byte][]rune {
	m := map[byte][]rune{}
	for i := 0; i+1 < len(acsc); i += 2 {
		if r, ok := AcsNames[acsc[i]]; ok {
			g := acsc[i+1]
			dup := false
			for _, x := range m[g] {
				if x == r {
					dup = true
				}
			}
			if !dup {
				m[g] = append(m[g], r)
			}
		}
	}
	return m
}

// AcsGlyphRunes returns the set of runes the acsc string provides a glyph for.
func AcsGlyphRunes(acsc string) map[rune]byte {
	m := map[rune]byte{}
	for i := 0; i+1 < len(acsc); i += 2 {
		if r, ok := AcsNames[acsc[i]]; ok {
			if _, dup := m[r]; !dup {
				m[r] = acsc[i+1]
			}
		}
	}
	return m
}
