// Package faketty is an instrumented implementation of tcell.Tty: it logs
// every call with a global sequence number, checks the call order the Tty
// contract demands (online automaton), lets the harness feed input, change the
// window size and inject faults, and hands every Write block to a sink
// (normally the reference terminal).
package faketty

import (
	"errors"
	"fmt"
	"os"
	"sync"
	"sync/atomic"
	"time"

	"github.com/gdamore/tcell/v2"
)

type Call struct {
	Seq  int
	Op   string
	N    int
	App  bool // inside a marked application call
	Note string
}

const (
	StStopped = iota
	StRunning
	StDraining
	StClosed
)

var stName = []string{"Stopped", "Running", "Draining", "Closed"}

type Tty struct {
	mu      sync.Mutex
	w, h    int
	in      chan []byte
	drained chan struct{}
	cb      func()
	cbNil   bool
	state   int
	seq     int
	Log     []Call
	LogMax  int
	Edges   map[string]int
	Errors  []string
	OnWrite func(b []byte) // called under the tty lock, in write order
	OnDrain func(t *Tty)   // called under the tty lock from inside Drain (fault injection)
	// OnNotifyNil is called (without the tty lock) when the resize callback is unregistered,
	// i.e. in the window of a shutdown where the screen lock is free (fault injection)
	OnNotifyNil func()
	Raw         []byte
	KeepRaw     bool

	// fault injection
	ReadErrAt       int64 // fail the k-th Read (1-based) with ReadErr; 0 = never
	ReadErr         error
	StartErr        error
	WinSizeErr      error
	DrainReturnsNil bool // after Drain a blocked Read returns (0,nil) instead of a deadline error
	FailWriteAfter  int  // >= 0: the next Write accepts that many bytes and then fails (set under Locked); -1 = off
	reads           int64

	app          int32 // >0 while the application is inside a Screen call
	finiPhase    int32 // 1 while Fini is in progress or done
	closes       int
	starts       int
	stops        int
	Reading      int32 // number of goroutines blocked in Read
	WriteDelayNS int64 // when > 0 every Write first sleeps this long (atomic)
	InDelay      int32 // number of writers currently sleeping
}

func New(w, h int) *Tty {
	t := &Tty{w: w, h: h, in: make(chan []byte), Edges: map[string]int{}, LogMax: 4000, ReadErr: errors.New("injected read error"), FailWriteAfter: -1}
	return t
}

// BeginApp / EndApp mark an application call into the Screen.
func (t *Tty) BeginApp()   { atomic.AddInt32(&t.app, 1) }
func (t *Tty) EndApp()     { atomic.AddInt32(&t.app, -1) }
func (t *Tty) BeginFini()  { atomic.StoreInt32(&t.finiPhase, 1) }
func (t *Tty) inApp() bool { return atomic.LoadInt32(&t.app) > 0 }

func (t *Tty) errf(f string, a ...any) {
	if len(t.Errors) < 20 {
		t.Errors = append(t.Errors, fmt.Sprintf(f, a...))
	}
}

func (t *Tty) log(op string, n int, note string) {
	t.seq++
	if len(t.Log) < t.LogMax {
		t.Log = append(t.Log, Call{Seq: t.seq, Op: op, N: n, App: t.inApp(), Note: note})
	}
}

func (t *Tty) edge(from int, op string, to int) {
	t.Edges[fmt.Sprintf("%s-%s->%s", stName[from], op, stName[to])]++
}

func (t *Tty) Start() error {
	t.mu.Lock()
	defer t.mu.Unlock()
	t.log("Start", 0, "")
	if t.StartErr != nil {
		return t.StartErr
	}
	switch t.state {
	case StStopped:
		t.edge(t.state, "Start", StRunning)
		t.state = StRunning
	case StClosed:
		t.errf("Start after Close")
	default:
		t.errf("Start while %s", stName[t.state])
	}
	t.starts++
	t.drained = make(chan struct{})
	return nil
}

func (t *Tty) Stop() error {
	t.mu.Lock()
	defer t.mu.Unlock()
	t.log("Stop", 0, "")
	switch t.state {
	case StDraining:
		if !t.cbNil {
			t.errf("Stop while the resize callback is still registered")
		}
		t.edge(t.state, "Stop", StStopped)
		t.state = StStopped
	case StRunning:
		t.errf("Stop without Drain")
		t.state = StStopped
	default:
		t.errf("Stop while %s", stName[t.state])
	}
	t.stops++
	return nil
}

func (t *Tty) Drain() error {
	t.mu.Lock()
	defer t.mu.Unlock()
	t.log("Drain", 0, "")
	switch t.state {
	case StRunning:
		t.edge(t.state, "Drain", StDraining)
		t.state = StDraining
		close(t.drained)
		if t.OnDrain != nil {
			t.OnDrain(t)
		}
	case StDraining:
	default:
		t.errf("Drain while %s", stName[t.state])
	}
	return nil
}

func (t *Tty) Close() error {
	t.mu.Lock()
	defer t.mu.Unlock()
	t.log("Close", 0, "")
	t.closes++
	if t.closes > 1 {
		t.errf("Close called %d times", t.closes)
	}
	if atomic.LoadInt32(&t.finiPhase) == 0 {
		t.errf("Close outside Fini")
	}
	if t.state != StStopped {
		t.errf("Close while %s", stName[t.state])
	} else {
		t.edge(t.state, "Close", StClosed)
	}
	t.state = StClosed
	return nil
}

func (t *Tty) NotifyResize(cb func()) {
	t.mu.Lock()
	t.log("NotifyResize", 0, fmt.Sprint(cb != nil))
	t.cb = cb
	t.cbNil = cb == nil
	if t.state == StClosed && !t.inApp() {
		t.errf("NotifyResize after Close")
	}
	hook := t.OnNotifyNil
	t.mu.Unlock()
	if cb == nil && hook != nil {
		hook() // outside the tty lock: the hook may call the screen
	}
}

func (t *Tty) WindowSize() (tcell.WindowSize, error) {
	t.mu.Lock()
	defer t.mu.Unlock()
	t.log("WindowSize", 0, "")
	if t.WinSizeErr != nil {
		return tcell.WindowSize{}, t.WinSizeErr
	}
	return tcell.WindowSize{Width: t.w, Height: t.h}, nil
}

func (t *Tty) Read(b []byte) (int, error) {
	t.mu.Lock()
	t.log("Read", 0, "")
	if (t.state == StStopped || t.state == StClosed) && !t.inApp() {
		t.errf("Read begun while %s", stName[t.state])
	}
	d := t.drained
	k := atomic.AddInt64(&t.reads, 1)
	if t.ReadErrAt != 0 && k == t.ReadErrAt {
		t.mu.Unlock()
		return 0, t.ReadErr
	}
	nilStyle := t.DrainReturnsNil
	t.mu.Unlock()
	atomic.AddInt32(&t.Reading, 1)
	defer atomic.AddInt32(&t.Reading, -1)
	select {
	case c := <-t.in:
		return copy(b, c), nil
	case <-d:
		if nilStyle {
			return 0, nil
		}
		return 0, os.ErrDeadlineExceeded
	}
}

func (t *Tty) Write(b []byte) (int, error) {
	if d := atomic.LoadInt64(&t.WriteDelayNS); d > 0 {
		// a slow terminal: the writer is held up (without the tty lock, so that reads go on)
		atomic.AddInt32(&t.InDelay, 1)
		time.Sleep(time.Duration(d))
		atomic.AddInt32(&t.InDelay, -1)
	}
	t.mu.Lock()
	defer t.mu.Unlock()
	t.log("Write", len(b), "")
	if (t.state == StStopped || t.state == StClosed) && !t.inApp() {
		t.errf("Write of %q while %s (no application call in progress)", trunc(b), stName[t.state])
	}
	if t.KeepRaw {
		t.Raw = append(t.Raw, b...)
	}
	if k := t.FailWriteAfter; k >= 0 {
		// fault injection: the terminal takes the first k bytes of this write and then fails
		t.FailWriteAfter = -1
		if k > len(b) {
			k = len(b)
		}
		if t.OnWrite != nil && k > 0 {
			t.OnWrite(b[:k])
		}
		return k, errors.New("injected write error")
	}
	if t.OnWrite != nil {
		t.OnWrite(b)
	}
	return len(b), nil
}

func trunc(b []byte) []byte {
	if len(b) > 30 {
		return b[:30]
	}
	return b
}

// ---- harness side ---------------------------------------------------------

// Feed hands one chunk to a blocked (or future) Read; it blocks until taken.
func (t *Tty) Feed(b []byte) { t.in <- append([]byte(nil), b...) }

// FeedC returns the channel so that callers can select with a timeout.
func (t *Tty) FeedC() chan<- []byte { return t.in }

// SetSize changes the reported window size (no notification).
func (t *Tty) SetSize(w, h int) {
	t.mu.Lock()
	t.w, t.h = w, h
	t.mu.Unlock()
}

// NotifyNow invokes the registered resize callback, if any.
func (t *Tty) NotifyNow() bool {
	t.mu.Lock()
	cb := t.cb
	t.mu.Unlock()
	if cb != nil {
		cb()
		return true
	}
	return false
}

// Locked runs f under the tty lock (used to touch the write sink atomically).
func (t *Tty) Locked(f func()) {
	t.mu.Lock()
	defer t.mu.Unlock()
	f()
}

func (t *Tty) State() int {
	t.mu.Lock()
	defer t.mu.Unlock()
	return t.state
}

// Snapshot returns copies of the errors and edges.
func (t *Tty) Snapshot() (errs []string, edges map[string]int, seq int) {
	t.mu.Lock()
	defer t.mu.Unlock()
	errs = append(errs, t.Errors...)
	edges = map[string]int{}
	for k, v := range t.Edges {
		edges[k] = v
	}
	return errs, edges, t.seq
}

func (t *Tty) Counts() (starts, stops, closes int) {
	t.mu.Lock()
	defer t.mu.Unlock()
	return t.starts, t.stops, t.closes
}

// ResizeLocked changes the size and fires the resize callback; for use from
// OnDrain / OnWrite hooks, which already hold the tty lock.
func (t *Tty) ResizeLocked(w, h int) {
	t.w, t.h = w, h
	if t.cb != nil {
		t.cb()
	}
}

// ReadCount returns the number of Read calls so far (call with the lock held, e.g. from Locked).
func (t *Tty) ReadCount() int64 { return atomic.LoadInt64(&t.reads) }

// Pending is the number of fed chunks no Read has taken yet.
func (t *Tty) Pending() int { return len(t.in) }
