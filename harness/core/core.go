// Package core holds what every property check shares: seeds, the run record
// (measured coverage, violations, known findings), the evidence writer and a
// small parallel-for.
package core

import (
	"encoding/json"
	"fmt"
	"hash/fnv"
	"math/rand/v2"
	"os"
	"os/exec"
	"path/filepath"
	"runtime"
	"sort"
	"strings"
	"sync"
	"time"
)

// VerifDir is the directory that holds MANIFEST.json, evidence/, replays/.
func VerifDir() string {
	if d := os.Getenv("VERIF_DIR"); d != "" {
		return d
	}
	return "/verif"
}

// Finding is one entry of known_findings.json.
type Finding struct {
	Property  string `json:"property"`
	Signature string `json:"signature"`
	Status    string `json:"status"` // "known" | "fixed"
	Commit    string `json:"commit,omitempty"`
	What      string `json:"what"`
}

type Violation struct {
	Sig    string `json:"signature"`
	What   string `json:"what"`
	Replay string `json:"replay"`
}

// Run is the record of one execution of one property check.
type Run struct {
	Prop  string
	Tier  string
	Seed  int64
	Level string

	Rule        string
	Assumptions []string
	Exhaustive  bool
	// MinDistinct is the floor of distinct non-trivial cases below which the
	// run is inconclusive (it observed too little to say anything).
	MinDistinct int

	start    time.Time
	mu       sync.Mutex
	evals    int64
	distinct map[uint64]struct{}
	dcount   int64 // distinct by construction (enumerations)
	samples  []any
	extra    map[string]any
	counters map[string]int64
	viol     []Violation
	violSigs map[string]int
	knownHit map[string]int
	incon    []string
	findings []Finding
	nreplay  int
}

func NewRun(prop, tier string, seed int64) *Run {
	r := &Run{Prop: prop, Tier: tier, Seed: seed, Level: "exploration", start: time.Now(),
		distinct: map[uint64]struct{}{}, extra: map[string]any{}, counters: map[string]int64{},
		violSigs: map[string]int{}, knownHit: map[string]int{}, MinDistinct: 2}
	b, err := os.ReadFile(filepath.Join(VerifDir(), "known_findings.json"))
	if err == nil {
		var all []Finding
		if err := json.Unmarshal(b, &all); err != nil {
			fmt.Fprintf(os.Stderr, "known_findings.json: %v\n", err)
			os.Exit(3)
		}
		for _, f := range all {
			if f.Property == prop {
				r.findings = append(r.findings, f)
			}
		}
	}
	return r
}

func Hash64(parts ...any) uint64 {
	h := fnv.New64a()
	for _, p := range parts {
		fmt.Fprintf(h, "%v\x00", p)
	}
	return h.Sum64()
}

// Rand returns the PRNG of case idx: a pure function of (seed, property, idx).
func (r *Run) Rand(idx ...any) *rand.Rand {
	a := Hash64(append([]any{r.Seed, r.Prop}, idx...)...)
	b := Hash64(append([]any{"b", r.Seed, r.Prop}, idx...)...)
	return rand.New(rand.NewPCG(a, b))
}

// Case counts one evaluation.  key identifies the normalised case when it is
// non-trivial by the property's rule; "" means trivial (counted as an
// evaluation only).
func (r *Run) Case(key string) {
	r.mu.Lock()
	r.evals++
	if key != "" {
		r.distinct[Hash64(key)] = struct{}{}
	}
	r.mu.Unlock()
}

// CaseN counts n evaluations of an enumeration whose members are distinct by
// construction, nd of them non-trivial.
func (r *Run) CaseN(n, nd int64) {
	r.mu.Lock()
	r.evals += n
	r.dcount += nd
	r.mu.Unlock()
}

func (r *Run) Count(name string, n int64) {
	r.mu.Lock()
	r.counters[name] += n
	r.mu.Unlock()
}

func (r *Run) Counter(name string) int64 {
	r.mu.Lock()
	defer r.mu.Unlock()
	return r.counters[name]
}

func (r *Run) Set(name string, v any) {
	r.mu.Lock()
	r.extra[name] = v
	r.mu.Unlock()
}

// Sample records an actual case (at most max are kept).
func (r *Run) Sample(max int, v any) {
	r.mu.Lock()
	if len(r.samples) < max {
		r.samples = append(r.samples, v)
	}
	r.mu.Unlock()
}

func (r *Run) Inconclusive(why string) {
	r.mu.Lock()
	if len(r.incon) < 50 {
		r.incon = append(r.incon, why)
	}
	r.counters["inconclusive_cases"]++
	r.mu.Unlock()
}

// Violate records a violation with signature sig.  If sig is listed as a
// known finding it is reported as such and does not fail the run.  replay is
// written to a replay file (first few occurrences per signature).
func (r *Run) Violate(sig, what string, replay any) {
	r.mu.Lock()
	defer r.mu.Unlock()
	for _, f := range r.findings {
		if f.Status == "known" && sigMatch(f.Signature, sig) {
			r.knownHit[f.Signature]++
			return
		}
	}
	r.violSigs[sig]++
	if what == "" {
		return // a further occurrence of a class already reported in detail: counted only
	}
	if r.violSigs[sig] > 3 || len(r.viol) >= 40 {
		return
	}
	r.nreplay++
	dir := filepath.Join(VerifDir(), "replays")
	_ = os.MkdirAll(dir, 0o755)
	path := filepath.Join(dir, fmt.Sprintf("%s-seed%d-%s-%d.json", r.Prop, r.Seed, r.Tier, r.nreplay))
	if tag := os.Getenv("VERIF_CHILD"); tag != "" {
		path = filepath.Join(dir, fmt.Sprintf("%s-%s-seed%d-%s-%d.json", r.Prop, tag, r.Seed, r.Tier, r.nreplay))
	}
	b, _ := json.MarshalIndent(map[string]any{"property": r.Prop, "seed": r.Seed, "tier": r.Tier,
		"signature": sig, "what": what, "case": replay}, "", " ")
	_ = os.WriteFile(path, b, 0o644)
	r.viol = append(r.viol, Violation{Sig: sig, What: what, Replay: path})
}

// sigMatch: a known-finding signature matches exactly, or as a prefix when it
// ends in '*'.
func sigMatch(pat, sig string) bool {
	if strings.HasSuffix(pat, "*") {
		return strings.HasPrefix(sig, strings.TrimSuffix(pat, "*"))
	}
	return pat == sig
}

func (r *Run) Violations() int {
	r.mu.Lock()
	defer r.mu.Unlock()
	return len(r.viol)
}

// Finish writes the evidence file, prints verdict lines and returns the exit
// code: 0 held on what was observed, 1 violation, 2 inconclusive.
func (r *Run) Finish() int {
	r.mu.Lock()
	defer r.mu.Unlock()
	nd := int64(len(r.distinct)) + r.dcount
	cov := map[string]any{
		"evaluations":         r.evals,
		"distinct_nontrivial": nd,
		"rule":                r.Rule,
		"samples":             r.samples,
		"exhaustive":          r.Exhaustive,
	}
	for k, v := range r.counters {
		cov[k] = v
	}
	for k, v := range r.extra {
		cov[k] = v
	}
	if len(r.incon) > 0 {
		cov["inconclusive"] = r.incon
	}
	var known []string
	for _, f := range r.findings {
		if f.Status == "known" {
			if n := r.knownHit[f.Signature]; n > 0 {
				known = append(known, fmt.Sprintf("%s (x%d)", f.Signature, n))
			}
		}
	}
	sort.Strings(known)
	cov["known_findings_reproduced"] = known
	if len(r.viol) > 0 {
		cov["violations_detail"] = r.viol
	}
	if len(r.samples) == 0 {
		cov["samples"] = []any{"(none recorded)"}
	}
	ev := map[string]any{
		"property_id": r.Prop, "tier": r.Tier, "seed": r.Seed, "level": r.Level,
		"coverage": cov, "assumptions": r.Assumptions,
		"wall_s":     float64(time.Since(r.start).Milliseconds()) / 1000,
		"violations": len(r.violSigs),
	}
	dir := filepath.Join(VerifDir(), "evidence")
	if d := os.Getenv("VERIF_EVIDENCE_DIR"); d != "" {
		dir = d // runs against a deliberately broken tree (tools/mutcheck.sh) keep their evidence apart
	}
	_ = os.MkdirAll(dir, 0o755)
	b, _ := json.MarshalIndent(ev, "", " ")
	if err := os.WriteFile(filepath.Join(dir, r.Prop+".json"), b, 0o644); err != nil {
		fmt.Fprintf(os.Stderr, "cannot write evidence: %v\n", err)
	}
	for _, f := range r.findings {
		if f.Status == "known" && r.knownHit[f.Signature] > 0 {
			fmt.Printf("KNOWN-FINDING: property=%s %s [%s] (reproduced %d times)\n", r.Prop, f.What, f.Signature, r.knownHit[f.Signature])
		}
	}
	fmt.Printf("%s %s seed=%d: evaluations=%d distinct_nontrivial=%d wall=%.1fs", r.Prop, r.Tier, r.Seed, r.evals, nd, time.Since(r.start).Seconds())
	keys := make([]string, 0, len(r.counters))
	for k := range r.counters {
		keys = append(keys, k)
	}
	sort.Strings(keys)
	for _, k := range keys {
		fmt.Printf(" %s=%d", k, r.counters[k])
	}
	fmt.Println()
	if len(r.viol) == 0 && len(r.violSigs) > 0 {
		for sg := range r.violSigs {
			fmt.Printf("VIOLATION property=%s replay=(none)\n   signature: %s\n", r.Prop, sg)
		}
		return 1
	}
	if len(r.viol) > 0 {
		for _, v := range r.viol {
			fmt.Printf("VIOLATION property=%s replay=%s\n   signature: %s\n   %s\n", r.Prop, v.Replay, v.Sig, trunc(v.What, 600))
		}
		return 1
	}
	if nd < int64(r.MinDistinct) || r.evals == 0 {
		fmt.Printf("INCONCLUSIVE property=%s: observed too little (distinct_nontrivial=%d < %d)\n", r.Prop, nd, r.MinDistinct)
		return 2
	}
	if len(r.incon) >= 10 {
		// a few cases lost to a loaded machine are tolerated (and listed); many of them
		// mean the run did not observe what it claims to
		fmt.Printf("INCONCLUSIVE property=%s: %d inconclusive cases; first: %s\n", r.Prop, len(r.incon), trunc(r.incon[0], 300))
		return 2
	}
	if len(r.incon) > 0 {
		fmt.Printf("note: %d inconclusive case(s), listed in evidence; first: %s\n", r.counters["inconclusive_cases"], trunc(r.incon[0], 300))
	}
	fmt.Printf("HELD property=%s on everything explored\n", r.Prop)
	return 0
}

func trunc(s string, n int) string {
	if len(s) > n {
		return s[:n] + "…"
	}
	return s
}

// Parallel runs f(i) for i in [0,n) on up to GOMAXPROCS workers.
func Parallel(n int, f func(i int)) {
	ParallelW(n, runtime.GOMAXPROCS(0), f)
}

func ParallelW(n, workers int, f func(i int)) {
	if workers > n {
		workers = n
	}
	if workers < 1 {
		workers = 1
	}
	var wg sync.WaitGroup
	var mu sync.Mutex
	next := 0
	for w := 0; w < workers; w++ {
		wg.Add(1)
		go func() {
			defer wg.Done()
			for {
				mu.Lock()
				i := next
				next++
				mu.Unlock()
				if i >= n {
					return
				}
				f(i)
			}
		}()
	}
	wg.Wait()
}

// Quick reports whether the tier is quick.
func (r *Run) Quick() bool { return r.Tier != "thorough" }

// Pick returns q for the quick tier and t for thorough.
func (r *Run) Pick(q, t int) int {
	if r.Quick() {
		return q
	}
	return t
}

// ChildRun re-executes this check in a child process under additional environment
// settings (configuration that the library reads once, at package initialisation, such as
// RUNEWIDTH_EASTASIAN) and merges what the child observed: its violations (signature
// suffixed with the tag), its case counts, and its inconclusive state.
func (r *Run) ChildRun(tag string, env ...string) {
	if os.Getenv("VERIF_CHILD") != "" {
		return
	}
	self, err := os.Executable()
	if err != nil {
		r.Inconclusive("child run " + tag + ": " + err.Error())
		return
	}
	tmp, err := os.MkdirTemp(filepath.Join(VerifDir(), "replays"), "child-"+tag+"-")
	if err != nil {
		r.Inconclusive("child run " + tag + ": " + err.Error())
		return
	}
	defer os.RemoveAll(tmp)
	cmd := exec.Command(self, "-tier", r.Tier, "-seed", fmt.Sprint(r.Seed), r.Prop)
	cmd.Env = append(os.Environ(), env...)
	cmd.Env = append(cmd.Env, "VERIF_CHILD="+tag, "VERIF_EVIDENCE_DIR="+tmp)
	out, runErr := cmd.CombinedOutput()
	b, err := os.ReadFile(filepath.Join(tmp, r.Prop+".json"))
	if err != nil {
		if strings.Contains(string(out), "panic:") || strings.Contains(string(out), "fatal error:") {
			r.CaseN(1, 1)
			r.Violate("process-crash|"+tag, fmt.Sprintf("the check died in the child run under %v: %s", env, trunc(string(out), 1500)), map[string]any{"env": env})
			return
		}
		r.Inconclusive(fmt.Sprintf("child run %s left no evidence (%v): %s", tag, runErr, trunc(string(out), 300)))
		return
	}
	var ev struct {
		Coverage struct {
			Evaluations int64       `json:"evaluations"`
			Distinct    int64       `json:"distinct_nontrivial"`
			Viol        []Violation `json:"violations_detail"`
			Incon       []string    `json:"inconclusive"`
		} `json:"coverage"`
	}
	if err := json.Unmarshal(b, &ev); err != nil {
		r.Inconclusive("child run " + tag + ": " + err.Error())
		return
	}
	r.CaseN(ev.Coverage.Evaluations, 0)
	r.Set("child_run_"+tag, map[string]any{"env": env, "evaluations": ev.Coverage.Evaluations, "distinct_nontrivial": ev.Coverage.Distinct, "violations": len(ev.Coverage.Viol)})
	for _, v := range ev.Coverage.Viol {
		r.Violate(v.Sig+"|"+tag, fmt.Sprintf("(under %v) %s", env, v.What), map[string]any{"env": env, "child_replay": v.Replay})
	}
	for _, s := range ev.Coverage.Incon {
		r.Inconclusive("(child " + tag + ") " + s)
	}
}
