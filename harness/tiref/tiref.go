// Package tiref is a reference interpreter of the terminfo(5) parameterized
// string language and of the $<...> padding grammar, written from the manual
// page only (it shares no code with tcell's terminfo package).
package tiref

import (
	"fmt"
	"math"
	"strconv"
	"strings"
)

// Val is a parameter, stack or variable value.
type Val struct {
	IsStr bool
	S     string
	N     int
}

func Int(n int) Val    { return Val{N: n} }
func Str(s string) Val { return Val{IsStr: true, S: s} }

func (v Val) String() string {
	if v.IsStr {
		return strconv.Quote(v.S)
	}
	return strconv.Itoa(v.N)
}

// Statics are the %P[A-Z] variables, which persist across evaluations.
type Statics [26]Val

// Result of an evaluation.
type Result struct {
	Out    []byte
	Faults []string // strict-mode findings; empty for a well-formed, well-typed program
	MaxP   int      // highest parameter index referenced (1-based), 0 if none
}

type machine struct {
	prog   string
	pos    int
	params [9]Val
	nparam int
	stack  []Val
	dyn    [26]Val
	stat   *Statics
	out    []byte
	faults []string
	maxp   int
	steps  int
}

func (m *machine) fault(f string, a ...any) {
	if len(m.faults) < 20 {
		m.faults = append(m.faults, fmt.Sprintf(f, a...))
	}
}

func (m *machine) push(v Val) {
	// terminfo(5) does not fix the width of the machine's integers (ncurses uses a C int):
	// a program whose values leave the 32-bit range has no defined output
	if !v.IsStr && (v.N > math.MaxInt32 || v.N < math.MinInt32) {
		m.fault("value %d outside the 32-bit range at offset %d", v.N, m.pos)
	}
	m.stack = append(m.stack, v)
}
func (m *machine) pushBool(b bool) {
	if b {
		m.push(Int(1))
	} else {
		m.push(Int(0))
	}
}

func (m *machine) pop() Val {
	if len(m.stack) == 0 {
		m.fault("stack underflow at offset %d", m.pos)
		return Int(0)
	}
	v := m.stack[len(m.stack)-1]
	m.stack = m.stack[:len(m.stack)-1]
	return v
}

func (m *machine) popInt() int {
	v := m.pop()
	if v.IsStr {
		m.fault("string used as number at offset %d", m.pos)
		n, _ := strconv.Atoi(v.S)
		return n
	}
	return v.N
}

func (m *machine) popStr() string {
	v := m.pop()
	if !v.IsStr {
		m.fault("number used as string at offset %d", m.pos)
		return strconv.Itoa(v.N)
	}
	return v.S
}

// next returns the next program byte, or 0,false at the end.
func (m *machine) next() (byte, bool) {
	if m.pos >= len(m.prog) {
		return 0, false
	}
	c := m.prog[m.pos]
	m.pos++
	return c, true
}

// skip scans forward, without executing, to the %e (if stopAtElse) or %; that
// closes the current conditional level, honouring nested %? ... %;.
func (m *machine) skip(stopAtElse bool) {
	level := 0
	for m.pos < len(m.prog) {
		c := m.prog[m.pos]
		m.pos++
		if c != '%' {
			continue
		}
		if m.pos >= len(m.prog) {
			m.fault("dangling %% at end")
			return
		}
		c = m.prog[m.pos]
		m.pos++
		switch c {
		case '?':
			level++
		case ';':
			if level == 0 {
				return
			}
			level--
		case 'e':
			if level == 0 && stopAtElse {
				return
			}
		case '\'':
			// %'c' : the quoted character must not be taken for an operator
			m.pos += 2
		case '{':
			for m.pos < len(m.prog) && m.prog[m.pos] != '}' {
				m.pos++
			}
			m.pos++
		case 'p', 'P', 'g':
			m.pos++
		}
	}
	m.fault("unterminated conditional")
}

// Eval evaluates prog with the given parameters.  stat may be nil.
func Eval(prog string, params []Val, stat *Statics) Result {
	m := &machine{prog: prog, stat: stat}
	if stat == nil {
		m.stat = &Statics{}
	}
	for i := 0; i < 9 && i < len(params); i++ {
		m.params[i] = params[i]
	}
	m.nparam = len(params)
	depth := 0 // open %? ... %; levels being executed
	for {
		c, ok := m.next()
		if !ok {
			break
		}
		if c != '%' {
			m.out = append(m.out, c)
			continue
		}
		c, ok = m.next()
		if !ok {
			m.fault("dangling %% at end")
			break
		}
		switch c {
		case '%':
			m.out = append(m.out, '%')
		case 'i':
			if !m.params[0].IsStr {
				m.params[0].N++
			}
			if !m.params[1].IsStr {
				m.params[1].N++
			}
		case 'p':
			d, ok := m.next()
			if !ok || d < '1' || d > '9' {
				m.fault("bad parameter reference %%p%c", d)
				m.push(Int(0))
				break
			}
			k := int(d - '0')
			if k > m.maxp {
				m.maxp = k
			}
			if k > m.nparam {
				m.fault("parameter %d referenced but only %d supplied", k, m.nparam)
			}
			m.push(m.params[k-1])
		case 'P':
			d, ok := m.next()
			switch {
			case ok && d >= 'a' && d <= 'z':
				m.dyn[d-'a'] = m.pop()
			case ok && d >= 'A' && d <= 'Z':
				m.stat[d-'A'] = m.pop()
			default:
				m.fault("bad variable name in %%P%c", d)
			}
		case 'g':
			d, ok := m.next()
			switch {
			case ok && d >= 'a' && d <= 'z':
				m.push(m.dyn[d-'a'])
			case ok && d >= 'A' && d <= 'Z':
				m.push(m.stat[d-'A'])
			default:
				m.fault("bad variable name in %%g%c", d)
				m.push(Int(0))
			}
		case '\'':
			ch, ok1 := m.next()
			qt, ok2 := m.next()
			if !ok1 || !ok2 || qt != '\'' {
				m.fault("malformed character constant")
			}
			m.push(Int(int(ch)))
		case '{':
			n, digits := 0, 0
			for {
				d, ok := m.next()
				if !ok {
					m.fault("unterminated %%{")
					break
				}
				if d == '}' {
					break
				}
				if d < '0' || d > '9' {
					m.fault("non-digit %q in %%{}", d)
					continue
				}
				n = n*10 + int(d-'0')
				digits++
			}
			if digits == 0 {
				m.fault("empty %%{}")
			}
			m.push(Int(n))
		case 'l':
			m.push(Int(len(m.popStr())))
		case '+', '-', '*', '/', 'm', '&', '|', '^', '=', '<', '>', 'A', 'O':
			b := m.popInt()
			a := m.popInt()
			switch c {
			case '+':
				m.push(Int(a + b))
			case '-':
				m.push(Int(a - b))
			case '*':
				m.push(Int(a * b))
			case '/':
				if b == 0 {
					m.push(Int(0))
				} else {
					m.push(Int(a / b))
				}
			case 'm':
				if b == 0 {
					m.push(Int(0))
				} else {
					m.push(Int(a % b))
				}
			case '&':
				m.push(Int(a & b))
			case '|':
				m.push(Int(a | b))
			case '^':
				m.push(Int(a ^ b))
			case '=':
				m.pushBool(a == b)
			case '<':
				m.pushBool(a < b)
			case '>':
				m.pushBool(a > b)
			case 'A':
				m.pushBool(a != 0 && b != 0)
			case 'O':
				m.pushBool(a != 0 || b != 0)
			}
		case '!':
			m.pushBool(m.popInt() == 0)
		case '~':
			m.push(Int(^m.popInt()))
		case '?':
			depth++
		case 't':
			if depth == 0 {
				m.fault("%%t outside conditional")
			}
			if m.popInt() == 0 {
				// skip the then-part; resume after the matching %e, or after %;
				before := m.pos
				m.skip(true)
				if m.pos >= 2 && m.prog[m.pos-1] == ';' && m.pos > before {
					depth--
				}
			}
		case 'e':
			if depth == 0 {
				m.fault("%%e outside conditional")
			}
			// end of an executed then-part: skip to the closing %;
			m.skip(false)
			depth--
		case ';':
			if depth == 0 {
				m.fault("%%; outside conditional")
			} else {
				depth--
			}
		case 'd', 's', 'c', 'o', 'x', 'X', ':', ' ', '#', '.', '0', '1', '2', '3', '4', '5', '6', '7', '8', '9':
			m.pos-- // re-read as the start of a format specification
			m.format()
		default:
			m.fault("unknown operator %%%c", c)
		}
	}
	if depth != 0 {
		m.fault("conditional not closed (%d open)", depth)
	}
	if len(m.stack) > 0 {
		// values left on the stack are legal in terminfo(5); nothing to report
		_ = m.stack
	}
	return Result{Out: m.out, Faults: m.faults, MaxP: m.maxp}
}

// format handles %[[:]flags][width[.precision]][doxXsc].
func (m *machine) format() {
	var minus, plus, space, alt, zero bool
	c, _ := m.next()
	if c == ':' {
		c, _ = m.next()
		for c == '-' || c == '+' || c == ' ' || c == '#' {
			switch c {
			case '-':
				minus = true
			case '+':
				plus = true
			case ' ':
				space = true
			case '#':
				alt = true
			}
			c, _ = m.next()
		}
	} else {
		// without the colon, '-' and '+' would be operators; ' ' and '#' are flags
		for c == ' ' || c == '#' {
			if c == ' ' {
				space = true
			} else {
				alt = true
			}
			c, _ = m.next()
		}
	}
	width, prec, hasPrec := 0, 0, false
	if c == '0' {
		zero = true
	}
	for c >= '0' && c <= '9' {
		width = width*10 + int(c-'0')
		c, _ = m.next()
	}
	if c == '.' {
		hasPrec = true
		c, _ = m.next()
		for c >= '0' && c <= '9' {
			prec = prec*10 + int(c-'0')
			c, _ = m.next()
		}
	}
	pad := func(body string, zeroOK bool, signLen int) {
		if len(body) >= width {
			m.out = append(m.out, body...)
			return
		}
		n := width - len(body)
		switch {
		case minus:
			m.out = append(m.out, body...)
			m.out = append(m.out, strings.Repeat(" ", n)...)
		case zero && zeroOK:
			m.out = append(m.out, body[:signLen]...)
			m.out = append(m.out, strings.Repeat("0", n)...)
			m.out = append(m.out, body[signLen:]...)
		default:
			m.out = append(m.out, strings.Repeat(" ", n)...)
			m.out = append(m.out, body...)
		}
	}
	switch c {
	case 'd':
		v := m.popInt()
		neg := v < 0
		var digits string
		if neg {
			digits = strconv.FormatUint(uint64(-int64(v)), 10)
		} else {
			digits = strconv.Itoa(v)
		}
		if hasPrec {
			if prec == 0 && v == 0 {
				digits = ""
			}
			for len(digits) < prec {
				digits = "0" + digits
			}
		}
		sign := ""
		switch {
		case neg:
			sign = "-"
		case plus:
			sign = "+"
		case space:
			sign = " "
		}
		pad(sign+digits, !hasPrec, len(sign))
	case 'o', 'x', 'X':
		v := m.popInt()
		u := uint64(uint32(int32(v)))
		if v < 0 {
			m.fault("negative value formatted with %%%c", c)
		}
		var digits string
		switch c {
		case 'o':
			digits = strconv.FormatUint(u, 8)
		case 'x':
			digits = strconv.FormatUint(u, 16)
		case 'X':
			digits = strings.ToUpper(strconv.FormatUint(u, 16))
		}
		if hasPrec {
			if prec == 0 && u == 0 {
				digits = ""
			}
			for len(digits) < prec {
				digits = "0" + digits
			}
		}
		prefix := ""
		if alt {
			switch {
			case c == 'o' && !strings.HasPrefix(digits, "0"):
				digits = "0" + digits
			case c == 'x' && u != 0:
				prefix = "0x"
			case c == 'X' && u != 0:
				prefix = "0X"
			}
		}
		pad(prefix+digits, !hasPrec, len(prefix))
	case 's':
		s := m.popStr()
		if hasPrec && prec < len(s) {
			s = s[:prec]
		}
		pad(s, false, 0)
	case 'c':
		v := m.popInt()
		pad(string([]byte{byte(v)}), false, 0)
	default:
		m.fault("bad format conversion %q", c)
	}
}

// ---------------------------------------------------------------------------
// Padding grammar: $<n[.m][*][/]> where n is one or more digits, m is at most
// one digit, and '*' and '/' may each appear at most once, in either order.

// StripPadding returns s with every well-formed padding specification removed
// (anything else, including an unterminated or malformed one, is kept
// verbatim) and the total delay in microseconds the removed specifications ask
// for (not multiplied by affected lines).
func StripPadding(s string) (out []byte, delayUS int64, nspec int) {
	i := 0
	for i < len(s) {
		if s[i] == '$' && i+1 < len(s) && s[i+1] == '<' {
			if n, us, ok := parsePad(s[i:]); ok {
				i += n
				delayUS += us
				nspec++
				continue
			}
		}
		out = append(out, s[i])
		i++
	}
	return
}

// parsePad parses a padding spec at the start of s.
func parsePad(s string) (n int, us int64, ok bool) {
	j := 2
	d := 0
	var whole int64
	for j < len(s) && s[j] >= '0' && s[j] <= '9' {
		whole = whole*10 + int64(s[j]-'0')
		if whole > 1<<40 {
			whole = 1 << 40
		}
		j++
		d++
	}
	if d == 0 {
		return 0, 0, false
	}
	us = whole * 1000
	if j < len(s) && s[j] == '.' {
		j++
		if j < len(s) && s[j] >= '0' && s[j] <= '9' {
			us += int64(s[j]-'0') * 100
			j++
		}
	}
	star, slash := false, false
	for j < len(s) && (s[j] == '*' || s[j] == '/') {
		if s[j] == '*' {
			if star {
				return 0, 0, false
			}
			star = true
		} else {
			if slash {
				return 0, 0, false
			}
			slash = true
		}
		j++
	}
	if j < len(s) && s[j] == '>' {
		return j + 1, us, true
	}
	return 0, 0, false
}
