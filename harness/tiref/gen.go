package tiref

import (
	"fmt"
	"math/rand/v2"
	"sort"
	"strings"
)

// Item is one top-level piece of a generated program.
type Item struct {
	Text string
	Tags []string
}

// Program is a generated terminfo(5) program with typed parameters.
type Program struct {
	Items  []Item
	Params []Val
}

func (p Program) String() string {
	var sb strings.Builder
	for _, it := range p.Items {
		sb.WriteString(it.Text)
	}
	return sb.String()
}

func (p Program) Tags() []string {
	set := map[string]bool{}
	for _, it := range p.Items {
		for _, t := range it.Tags {
			set[t] = true
		}
	}
	var out []string
	for t := range set {
		out = append(out, t)
	}
	sort.Strings(out)
	return out
}

// GenOpts selects optional constructs.
type GenOpts struct {
	Statics   bool // allow %P[A-Z] / %g[A-Z]
	NcursesOK bool // restrict to what ncurses tparm can be safely compared on (ints only, no %l/%s, no %c of 0)
}

type gen struct {
	r      *rand.Rand
	o      GenOpts
	params []Val
	dynSet []byte // dynamic variables holding ints
	stSet  []byte
	tags   map[string]bool
	usedI  bool
}

func (g *gen) tag(t string) { g.tags[t] = true }

// Gen generates a well-formed, well-typed program.
func Gen(r *rand.Rand, o GenOpts) Program {
	g := &gen{r: r, o: o, tags: map[string]bool{}}
	np := 1 + r.IntN(4)
	for i := 0; i < np; i++ {
		if !o.NcursesOK && r.IntN(5) == 0 {
			g.params = append(g.params, Str(randWord(r)))
		} else {
			switch r.IntN(6) {
			case 0:
				g.params = append(g.params, Int(0))
			case 1:
				g.params = append(g.params, Int(r.IntN(16)))
			default:
				g.params = append(g.params, Int(r.IntN(301)))
			}
		}
	}
	var items []Item
	n := 1 + r.IntN(5)
	for i := 0; i < n; i++ {
		g.tags = map[string]bool{}
		txt := g.item(0)
		var tags []string
		for t := range g.tags {
			tags = append(tags, t)
		}
		sort.Strings(tags)
		items = append(items, Item{Text: txt, Tags: tags})
	}
	return Program{Items: items, Params: g.params}
}

func randWord(r *rand.Rand) string {
	const al = "abcXYZ019/:._-#"
	n := r.IntN(9)
	b := make([]byte, n)
	for i := range b {
		b[i] = al[r.IntN(len(al))]
	}
	return string(b)
}

func (g *gen) lit() string {
	const al = "abcmHJ;:[]()=<>?!0123456789 \x1b"
	n := 1 + g.r.IntN(4)
	b := make([]byte, n)
	for i := range b {
		b[i] = al[g.r.IntN(len(al))]
	}
	return string(b)
}

func (g *gen) intParams() []int {
	var out []int
	for i, p := range g.params {
		if !p.IsStr {
			out = append(out, i+1)
		}
	}
	return out
}

func (g *gen) strParams() []int {
	var out []int
	for i, p := range g.params {
		if p.IsStr {
			out = append(out, i+1)
		}
	}
	return out
}

// expr pushes one integer.
func (g *gen) expr(depth int) string {
	r := g.r
	if depth >= 3 || r.IntN(3) == 0 {
		switch k := r.IntN(10); {
		case k < 5:
			if ip := g.intParams(); len(ip) > 0 {
				return fmt.Sprintf("%%p%d", ip[r.IntN(len(ip))])
			}
			fallthrough
		case k < 7:
			g.tag("const")
			return fmt.Sprintf("%%{%d}", r.IntN(100))
		case k < 8:
			g.tag("charconst")
			const cs = "a0 (;%A~"
			return fmt.Sprintf("%%'%c'", cs[r.IntN(len(cs))])
		case k < 9 && len(g.dynSet) > 0:
			g.tag("dynvar")
			return fmt.Sprintf("%%g%c", g.dynSet[r.IntN(len(g.dynSet))])
		case len(g.stSet) > 0:
			g.tag("staticvar")
			return fmt.Sprintf("%%g%c", g.stSet[r.IntN(len(g.stSet))])
		default:
			if sp := g.strParams(); len(sp) > 0 && !g.o.NcursesOK {
				g.tag("strlen")
				return fmt.Sprintf("%%p%d%%l", sp[r.IntN(len(sp))])
			}
			return fmt.Sprintf("%%{%d}", r.IntN(10))
		}
	}
	if r.IntN(6) == 0 {
		op := "!~"[r.IntN(2)]
		g.tag("op" + string(op))
		return g.expr(depth+1) + "%" + string(op)
	}
	const ops = "+-*/m&|^=<>AO"
	op := ops[r.IntN(len(ops))]
	g.tag("op" + string(op))
	return g.expr(depth+1) + g.expr(depth+1) + "%" + string(op)
}

func (g *gen) printInt() string {
	r := g.r
	e := g.expr(1)
	switch k := r.IntN(14); {
	case k < 6:
		return e + "%d"
	case k < 7:
		g.tag("fmt-width")
		return e + fmt.Sprintf("%%%dd", 1+r.IntN(6))
	case k < 8:
		g.tag("fmt-zero")
		return e + fmt.Sprintf("%%0%dd", 1+r.IntN(6))
	case k < 9:
		g.tag("fmt-colon-minus")
		return e + fmt.Sprintf("%%:-%dd", 1+r.IntN(6))
	case k < 10:
		g.tag("fmt-prec")
		return e + fmt.Sprintf("%%%d.%dd", 2+r.IntN(5), 1+r.IntN(4))
	case k < 11:
		g.tag("fmt-hex")
		c := "xXo"[r.IntN(3)]
		if r.IntN(2) == 0 {
			return e + fmt.Sprintf("%%0%d%c", 1+r.IntN(6), c)
		}
		return e + "%" + string(c)
	case k < 12:
		g.tag("fmt-flag-nocolon")
		if r.IntN(2) == 0 {
			return e + "% d"
		}
		return e + "%#" + string("xo"[r.IntN(2)])
	case k < 13:
		g.tag("fmt-colon-flags")
		return e + "%:" + string("# "[r.IntN(2)]) + string("dx"[r.IntN(2)])
	default:
		g.tag("%c")
		return e + "%c"
	}
}

func (g *gen) item(depth int) string {
	r := g.r
	switch k := r.IntN(20); {
	case k < 4:
		return g.lit()
	case k < 5:
		g.tag("%%")
		return "%%"
	case k < 10:
		return g.printInt()
	case k < 11:
		if sp := g.strParams(); len(sp) > 0 {
			g.tag("%s")
			p := sp[r.IntN(len(sp))]
			switch r.IntN(4) {
			case 0:
				g.tag("fmt-str-width")
				return fmt.Sprintf("%%p%d%%%ds", p, 1+r.IntN(8))
			case 1:
				g.tag("fmt-str-left")
				return fmt.Sprintf("%%p%d%%:-%ds", p, 1+r.IntN(8))
			default:
				return fmt.Sprintf("%%p%d%%s", p)
			}
		}
		return g.printInt()
	case k < 12:
		if !g.usedI && depth == 0 {
			g.usedI = true
			g.tag("%i")
			return "%i"
		}
		return g.lit()
	case k < 14:
		v := byte('a' + r.IntN(4))
		g.tag("dynvar")
		s := g.expr(1) + "%P" + string(v)
		g.dynSet = append(g.dynSet, v)
		return s
	case k < 15:
		if g.o.Statics {
			v := byte('A' + r.IntN(4))
			g.tag("staticvar")
			s := g.expr(1) + "%P" + string(v)
			g.stSet = append(g.stSet, v)
			return s
		}
		return g.lit()
	default:
		if depth >= 3 {
			return g.printInt()
		}
		return g.cond(depth)
	}
}

func (g *gen) body(depth int) string {
	n := g.r.IntN(3)
	var sb strings.Builder
	// variables assigned inside a branch may not be assigned on the path
	// taken; restore the "known set" afterwards so later reads are defined
	d0, s0 := len(g.dynSet), len(g.stSet)
	for i := 0; i <= n; i++ {
		sb.WriteString(g.item(depth + 1))
	}
	g.dynSet, g.stSet = g.dynSet[:d0], g.stSet[:s0]
	return sb.String()
}

func (g *gen) cond(depth int) string {
	r := g.r
	g.tag("cond")
	if depth > 0 {
		g.tag("cond-nested")
	}
	var sb strings.Builder
	sb.WriteString("%?")
	sb.WriteString(g.expr(1))
	sb.WriteString("%t")
	sb.WriteString(g.body(depth))
	nelif := 0
	if r.IntN(3) == 0 {
		nelif = 1 + r.IntN(2)
		g.tag("cond-elseif")
	}
	for i := 0; i < nelif; i++ {
		sb.WriteString("%e")
		sb.WriteString(g.expr(1))
		sb.WriteString("%t")
		sb.WriteString(g.body(depth))
	}
	if r.IntN(3) != 0 {
		g.tag("cond-else")
		sb.WriteString("%e")
		sb.WriteString(g.body(depth))
	}
	sb.WriteString("%;")
	return sb.String()
}
