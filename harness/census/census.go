// Package census parses goroutine dumps: which goroutines belong to tcell,
// what they are blocked on, and whether two dumps show the same parked state.
package census

import (
	"regexp"
	"runtime"
	"sort"
	"strings"
)

type G struct {
	ID     string
	State  string
	Frames []string // function names, innermost first
}

var hdr = regexp.MustCompile(`^goroutine (\d+) \[([^\]]+)\]:$`)

// Dump returns all goroutines of the process.
func Dump() []G {
	buf := make([]byte, 1<<20)
	for {
		n := runtime.Stack(buf, true)
		if n < len(buf) {
			buf = buf[:n]
			break
		}
		buf = make([]byte, 2*len(buf))
	}
	return Parse(string(buf))
}

func Parse(s string) []G {
	var out []G
	var cur *G
	for _, line := range strings.Split(s, "\n") {
		if m := hdr.FindStringSubmatch(line); m != nil {
			out = append(out, G{ID: m[1], State: strings.SplitN(m[2], ",", 2)[0]})
			cur = &out[len(out)-1]
			continue
		}
		if cur == nil || line == "" || strings.HasPrefix(line, "\t") || strings.HasPrefix(line, "created by ") {
			if line == "" {
				cur = nil
			}
			continue
		}
		fn := line
		if i := strings.LastIndex(fn, "("); i > 0 {
			fn = fn[:i]
		}
		cur.Frames = append(cur.Frames, fn)
	}
	return out
}

const pkg = "github.com/gdamore/tcell/v2."

// TcellFrame returns the innermost tcell frame of g ("" if none).
func (g G) TcellFrame() string {
	for _, f := range g.Frames {
		if strings.HasPrefix(f, pkg) {
			return strings.TrimPrefix(f, pkg)
		}
	}
	return ""
}

// Has reports whether any frame of g contains sub.
func (g G) Has(sub string) bool {
	for _, f := range g.Frames {
		if strings.Contains(f, sub) {
			return true
		}
	}
	return false
}

var blocking = map[string]bool{"chan send": true, "chan receive": true, "select": true, "semacquire": true, "sync.Mutex.Lock": true, "sync.WaitGroup.Wait": true, "sync.Cond.Wait": true, "IO wait": true, "select (no cases)": true}

func Blocking(state string) bool { return blocking[state] }

// Parked summarises the tcell goroutines of a dump: "frame:state" entries,
// sorted.  allBlocked is false if any of them is running or runnable.
func Parked(gs []G, only func(G) bool) (sig []string, allBlocked bool) {
	allBlocked = true
	for _, g := range gs {
		tf := g.TcellFrame()
		if tf == "" || (only != nil && !only(g)) {
			continue
		}
		if !Blocking(g.State) {
			allBlocked = false
		}
		sig = append(sig, tf+":"+g.State)
	}
	sort.Strings(sig)
	return
}

// Library returns the library-owned goroutines (input loop, main loop) of a dump.
func Library(gs []G) []G {
	var out []G
	for _, g := range gs {
		if g.Has("tScreen).inputLoop") || g.Has("tScreen).mainLoop") {
			out = append(out, g)
		}
	}
	return out
}
