package main
import ("fmt";"github.com/gdamore/tcell/v2")
func main(){
 var cb tcell.CellBuffer
 cb.Resize(5,3)
 st:=tcell.StyleDefault.Background(tcell.PaletteColor(0)).Bold(true)
 for y:=0;y<3;y++{for x:=0;x<5;x++{cb.SetDirty(x,y,false)}}
 cb.SetContent(4,2,'本',nil,st)
 fmt.Println("dirty after set:", cb.Dirty(4,2))
 cb.Fill(' ', tcell.StyleDefault)
 fmt.Println("dirty after fill:", cb.Dirty(4,2))
 r,_,s,w:=cb.GetContent(4,2); fmt.Printf("%q %+v %d\n",r,s,w)
}
