package main
import ("fmt";"os";"time";"runtime/pprof";"github.com/gdamore/tcell/v2";"verif/faketty";"verif/props")
func main(){
 ti:=props.Pristine("xterm-256color"); ti.PadChar=""
 for iter:=0; iter<200; iter++ {
 ft:=faketty.New(10,4)
 flip:=false
 ft.OnDrain=func(t *faketty.Tty){ flip=!flip; if flip {t.ResizeLocked(11,5)} else {t.ResizeLocked(10,4)} }
 s,_:=tcell.NewTerminfoScreenFromTtyTerminfo(ft,ti)
 ft.BeginApp(); s.Init()
 done:=make(chan struct{})
 go func(){ s.Show(); s.Suspend(); s.Resume(); s.Show(); s.Suspend(); s.Resume(); ft.BeginFini(); s.Fini(); close(done)}()
 select{ case <-done: case <-time.After(5*time.Second): fmt.Println("HANG at iter",iter); pprof.Lookup("goroutine").WriteTo(os.Stdout,1); os.Exit(1)}
 }
 fmt.Println("no hang")
}
