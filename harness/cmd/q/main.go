package main
import ("fmt";"github.com/gdamore/tcell/v2";"github.com/gdamore/tcell/v2/views")
type rv struct{w,h int}
func (v *rv) SetContent(x,y int,ch rune,c []rune,s tcell.Style){}
func (v *rv) Size()(int,int){return v.w,v.h}
func (v *rv) Resize(x,y,w,h int){}
func (v *rv) Clear(){}
func (v *rv) Fill(ch rune,s tcell.Style){}
type lw struct{pw,ph int; view views.View; views.WidgetWatchers}
func (w *lw) Draw(){}
func (w *lw) Resize(){}
func (w *lw) HandleEvent(ev tcell.Event) bool{return false}
func (w *lw) SetView(v views.View){w.view=v}
func (w *lw) Size()(int,int){return w.pw,w.ph}
type probe struct{*views.BoxLayout; view views.View}
func (p *probe) SetView(v views.View){p.view=v;p.BoxLayout.SetView(v)}
func pr(n string, v views.View){ vp:=v.(*views.ViewPort); x1,y1,x2,y2:=vp.GetPhysical(); fmt.Println(n,x1,y1,x2,y2) }
func main(){
 root:=&rv{7,20}
 top:=views.NewBoxLayout(views.Vertical); top.SetView(root)
 a:=&lw{pw:3,ph:5}; top.AddWidget(a,1.64)
 b1:=&probe{BoxLayout:views.NewBoxLayout(views.Horizontal)}; top.InsertWidget(0,b1,0.25)
 b:=&lw{pw:9,ph:6}; b1.AddWidget(b,1)
 b2:=&probe{BoxLayout:views.NewBoxLayout(views.Horizontal)}; top.InsertWidget(1,b2,0.25)
 c:=&lw{pw:8,ph:3}; b2.AddWidget(c,3)
 top.Draw()
 pr("a",a.view);pr("b1",b1.view);pr("b2",b2.view);pr("b",b.view);pr("c",c.view)
 fmt.Println(b1.Size()); fmt.Println(b2.Size())
}
