// vcheck runs the monitor of one property against the tcell tree it was
// built from (module replace => /repo, build tag verif).
package main

import (
	"encoding/json"
	"flag"
	"fmt"
	"os"
	"strconv"

	"verif/core"
	"verif/props"
)

func main() {
	tier := flag.String("tier", "", "quick|thorough")
	seed := flag.Int64("seed", -1, "seed (default $VERIF_SEED or 1)")
	replay := flag.String("replay", "", "replay file")
	flag.Usage = func() {
		fmt.Fprintf(os.Stderr, "usage: vcheck [-tier quick|thorough] [-seed N] <property>|-replay file\nproperties: %v\n", props.IDs())
	}
	flag.Parse()
	if *replay != "" {
		b, err := os.ReadFile(*replay)
		if err != nil {
			fmt.Fprintln(os.Stderr, err)
			os.Exit(3)
		}
		var rp struct {
			Property string `json:"property"`
			Seed     int64  `json:"seed"`
			Tier     string `json:"tier"`
		}
		if err := json.Unmarshal(b, &rp); err != nil {
			fmt.Fprintln(os.Stderr, err)
			os.Exit(3)
		}
		if ok, rc := props.ReplayCase(rp.Property, b); ok {
			os.Exit(rc)
		}
		fmt.Printf("replaying %s: property=%s seed=%d tier=%s (this property re-runs its case list, a pure function of seed and tier)\n", *replay, rp.Property, rp.Seed, rp.Tier)
		os.Exit(run(rp.Property, rp.Tier, rp.Seed))
	}
	if flag.NArg() != 1 {
		flag.Usage()
		os.Exit(3)
	}
	if *tier == "" {
		*tier = os.Getenv("VERIF_TIER")
	}
	if *tier == "" {
		*tier = "quick"
	}
	if *seed < 0 {
		*seed = 1
		if v, err := strconv.ParseInt(os.Getenv("VERIF_SEED"), 10, 64); err == nil {
			*seed = v
		}
	}
	os.Exit(run(flag.Arg(0), *tier, *seed))
}

func run(id, tier string, seed int64) int {
	f, ok := props.Registry[id]
	if !ok {
		fmt.Fprintf(os.Stderr, "unknown property %q; have %v\n", id, props.IDs())
		return 3
	}
	r := core.NewRun(id, tier, seed)
	f(r)
	return r.Finish()
}
