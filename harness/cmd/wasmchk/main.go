//go:build js && wasm

// wasmchk is the C19 monitor.  It is compiled for js/wasm against the tcell
// tree under test and run under Node with a recording stand-in for
// webfiles/tcell.js.  It prints one JSON document on stdout.
package main

import (
	"encoding/json"
	"fmt"
	"hash/fnv"
	"math/rand/v2"
	"os"
	"reflect"
	"runtime"
	"sort"
	"strconv"
	"strings"
	"syscall/js"

	"github.com/gdamore/tcell/v2"

	"verif/shadow"
)

type violation struct {
	Sig  string `json:"sig"`
	What string `json:"what"`
}

type report struct {
	Evaluations int64            `json:"evaluations"`
	Distinct    int64            `json:"distinct"`
	Counters    map[string]int64 `json:"counters"`
	Samples     []any            `json:"samples"`
	Violations  []violation      `json:"violations"`
	Incon       []string         `json:"inconclusive"`
}

var rep = report{Counters: map[string]int64{}}
var seenSig = map[string]int{}

func violate(sig, what string) {
	seenSig[sig]++
	if seenSig[sig] <= 3 && len(rep.Violations) < 40 {
		rep.Violations = append(rep.Violations, violation{sig, what})
	}
}

const stubs = `
globalThis.__log = [];
globalThis.drawCell = function(x, y, s, fg, bg, attrs, us, uc) { __log.push(["drawCell", x, y, s, fg, bg, attrs, us, uc]); };
globalThis.clearScreen = function(fg, bg) { __log.push(["clearScreen", fg, bg]); };
globalThis.show = function() { __log.push(["show"]); };
globalThis.showCursor = function(x, y) { __log.push(["showCursor", x, y]); };
globalThis.setCursorStyle = function(c, col) { __log.push(["setCursorStyle", c, col]); };
globalThis.resize = function(w, h) { __log.push(["resize", w, h]); };
globalThis.beep = function() { __log.push(["beep"]); };
globalThis.setTitle = function(t) { __log.push(["setTitle", t]); };
`

type jcell struct {
	s         string
	fg, bg    int
	attrs, us int
	uc        int
	stamp     int
}

// page is the Go-side mirror of what the JS stubs were told.
type page struct {
	cells  map[[2]int]*jcell
	stamp  int
	cx, cy int
	clears int
}

func (p *page) drain() {
	log := js.Global().Get("__log")
	n := log.Length()
	p.stamp++
	for i := 0; i < n; i++ {
		e := log.Index(i)
		switch e.Index(0).String() {
		case "drawCell":
			x, y := e.Index(1).Int(), e.Index(2).Int()
			p.cells[[2]int{x, y}] = &jcell{s: e.Index(3).String(), fg: e.Index(4).Int(), bg: e.Index(5).Int(), attrs: e.Index(6).Int(), us: e.Index(7).Int(), uc: e.Index(8).Int(), stamp: p.stamp}
			rep.Counters["drawCell_calls"]++
		case "clearScreen":
			p.cells = map[[2]int]*jcell{}
			p.clears++
		case "showCursor":
			p.cx, p.cy = e.Index(1).Int(), e.Index(2).Int()
		}
	}
	js.Global().Set("__log", js.Global().Get("Array").New())
}

var webPalette = [16]int{0x000000, 0xcd0000, 0x00cd00, 0xcdcd00, 0x0000ee, 0xcd00cd, 0x00cdcd, 0xe5e5e5, 0x7f7f7f, 0xff0000, 0x00ff00, 0xffff00, 0x5c5cff, 0xff00ff, 0x00ffff, 0xffffff}

// xterm 256-colour formula (harness's own copy)
func pal256(i int) int {
	switch {
	case i < 16:
		return webPalette[i]
	case i < 232:
		lv := [6]int{0, 95, 135, 175, 215, 255}
		k := i - 16
		return lv[k/36]<<16 | lv[(k/6)%6]<<8 | lv[k%6]
	}
	g := 8 + 10*(i-232)
	return g<<16 | g<<8 | g
}

func wantColor(c tcell.Color, def int) int {
	switch {
	case c.IsRGB():
		return int(c.Hex())
	case c.Valid() && int(c&0xffffff) < 256:
		return pal256(int(c & 0xff))
	case c.Valid() && c.Hex() >= 0:
		return int(c.Hex())
	}
	return def
}

func wantAttrs(s shadow.Spec) int {
	a := 0
	for i, b := range []bool{s.Bold, s.Blink, s.Rev, false, s.Dim, s.Italic, s.Strike} {
		if b {
			a |= 1 << i
		}
	}
	return a
}

func rng(seed int64, parts ...any) *rand.Rand {
	h := fnv.New64a()
	fmt.Fprintf(h, "%d", seed)
	for _, p := range parts {
		fmt.Fprintf(h, "|%v", p)
	}
	a := h.Sum64()
	return rand.New(rand.NewPCG(a, a^0x9e3779b97f4a7c15))
}

func runesEq(a, b []rune) bool { return string(a) == string(b) }

// ---------------------------------------------------------------------------

func drawHistory(seed int64, hi int) {
	rg := rng(seed, "draw", hi)
	_, _, ops := shadow.Gen(rg, shadow.GenOpts{MaxW: 14, MaxH: 5, NoCorrupt: true, NoCursorStyle: true, NoResize: true})
	cat, what := execDraw(ops)
	rep.Evaluations++
	rep.Distinct++
	if cat != "" && seenSig["draw:"+cat] >= 2 {
		violate("draw:"+cat, "")
		return
	}
	if cat != "" {
		for changed, rounds := true, 0; changed && rounds < 2; rounds++ {
			changed = false
			for k := 0; k < len(ops); k++ {
				cand := append(append([]shadow.Op{}, ops[:k]...), ops[k+1:]...)
				if c2, w2 := execDraw(cand); c2 == cat {
					ops, what, changed = cand, w2, true
					k--
				}
			}
		}
		violate("draw:"+cat, what+" :: history: "+shadow.OpsString(ops))
	}
	if hi < 2 {
		s := shadow.OpsString(ops)
		if len(s) > 400 {
			s = s[:400] + "…"
		}
		rep.Samples = append(rep.Samples, map[string]any{"kind": "draw history on the wasm screen", "ops": s})
	}
}

const W, H = 80, 24

func execDraw(ops []shadow.Op) (string, string) {
	s, err := tcell.NewTerminfoScreen()
	if err != nil {
		return "new", err.Error()
	}
	if err := s.Init(); err != nil {
		return "init", err.Error()
	}
	defer s.Fini()
	js.Global().Set("__log", js.Global().Get("Array").New())
	pg := &page{cells: map[[2]int]*jcell{}, cx: -1, cy: -1}
	m := shadow.NewModel(W, H)
	var prev []shadow.Disp
	touched := map[int]bool{}
	unlocked := map[int]bool{}
	wideSince := map[int]bool{}
	defHist := []shadow.Spec{{}}
	touch := func(x, y int, r rune, comb []rune, sp shadow.Spec) {
		i := y*m.W + x
		c := m.C[i]
		nsp := sp
		if nsp.Fg == tcell.ColorNone {
			nsp.Fg = c.St.Fg
		}
		if nsp.Bg == tcell.ColorNone {
			nsp.Bg = c.St.Bg
		}
		if c.R != r || c.St != nsp || !runesEq(c.Comb, comb) {
			touched[i] = true
		}
		if (!shadow.MustBlank(c.R) && shadow.Width(c.R) == 2) || (!shadow.MustBlank(r) && shadow.Width(r) == 2) {
			wideSince[i] = true
		}
	}
	check := func(what string, full bool) (string, string) {
		pg.drain()
		exp := m.Expected()
		for y := 0; y < m.H; y++ {
			for x := 0; x < m.W; x++ {
				i := y*m.W + x
				if m.C[i].Lock || exp[i].Cont {
					continue
				}
				if x > 0 && exp[i-1].Wide {
					continue
				}
				e := exp[i]
				g := pg.cells[[2]int{x, y}]
				if g == nil {
					// never drawn since the last clear: the page shows a cleared cell
					if e.R == ' ' && len(e.Comb) == 0 && e.DefStyle && pg.clears > 0 && full {
						continue
					}
					return "cell-not-drawn", fmt.Sprintf("%s: cell (%d,%d) %q was never drawn", what, x, y, e.R)
				}
				rep.Counters["cells_compared"]++
				wantS := string(append([]rune{e.R}, e.Comb...))
				raw := m.C[i]
				if x == m.W-1 && !shadow.MustBlank(raw.R) && shadow.Width(raw.R) == 2 {
					// a wide rune in the last column: blank or the rune itself
					if g.s != " " && g.s != string(append([]rune{raw.R}, raw.Comb...)) {
						return "text", fmt.Sprintf("%s: cell (%d,%d) shows %q", what, x, y, g.s)
					}
				} else if g.s != wantS {
					return "text", fmt.Sprintf("%s: cell (%d,%d) shows %q, expected %q", what, x, y, g.s, wantS)
				}
				cands := []shadow.Spec{e.St}
				if e.DefStyle {
					cands = defHist
				}
				ok := false
				var diff string
				for _, sp := range cands {
					wfg, wbg := wantColor(sp.Fg, 0xe5e5e5), wantColor(sp.Bg, 0x000000)
					wuc := wantColor(sp.Ul, 0x000000)
					wat := wantAttrs(sp)
					switch {
					case g.fg != wfg:
						diff = fmt.Sprintf("fg %#06x want %#06x", g.fg, wfg)
					case g.bg != wbg:
						diff = fmt.Sprintf("bg %#06x want %#06x", g.bg, wbg)
					case g.attrs&^8 != wat:
						diff = fmt.Sprintf("attrs %#x want %#x", g.attrs, wat)
					case g.us != sp.Us:
						diff = fmt.Sprintf("underline style %d want %d", g.us, sp.Us)
					case sp.Us != 0 && g.uc != wuc:
						diff = fmt.Sprintf("underline colour %#06x want %#06x", g.uc, wuc)
					default:
						ok = true
					}
					if ok {
						break
					}
				}
				if !ok {
					return "style:" + strings.SplitN(diff, " ", 2)[0], fmt.Sprintf("%s: cell (%d,%d) %q style %s: %s", what, x, y, e.R, e.St.Short(), diff)
				}
			}
		}
		if !full && prev != nil {
			for p, g := range pg.cells {
				if g.stamp != pg.stamp {
					continue
				}
				i := p[1]*m.W + p[0]
				if p[0] >= m.W || p[1] >= m.H {
					return "draw-outside", fmt.Sprintf("%s: drawCell(%d,%d) outside the %dx%d screen", what, p[0], p[1], m.W, m.H)
				}
				if m.C[i].Lock {
					return "locked-cell-drawn", fmt.Sprintf("%s: drawCell on locked cell (%d,%d)", what, p[0], p[1])
				}
				wideAt := func(j int) bool { return wideSince[j] || prev[j].Wide || exp[j].Wide }
				nb := (p[0] > 0 && touched[i-1] && wideAt(i-1)) || (p[0] > 1 && touched[i-2] && (wideAt(i-2) || wideAt(i-1)))
				// displayed content differs from what the previous Show left (chain of overlapping
				// wide runes covered / uncovered further left): the cell has to be drawn
				dispChanged := len(prev) == len(exp) && !reflect.DeepEqual(prev[i], exp[i])
				if !touched[i] && !nb && !unlocked[i] && !dispChanged {
					return "unchanged-cell-drawn", fmt.Sprintf("%s: drawCell(%d,%d) although nothing changed there since the previous Show", what, p[0], p[1])
				}
			}
		}
		prev = exp
		touched, unlocked, wideSince = map[int]bool{}, map[int]bool{}, map[int]bool{}
		if full {
			defHist = []shadow.Spec{m.Def}
		}
		return "", ""
	}
	s.Show()
	if c, w := check("first show", true); c != "" {
		return c, w
	}
	for oi, o := range ops {
		tag := fmt.Sprintf("op %d %s", oi, o.K)
		switch o.K {
		case "set", "setcell":
			if m.In(o.X, o.Y) && m.IsHidden(o.X, o.Y) {
				continue
			}
			if o.K == "setcell" {
				s.SetCell(o.X, o.Y, o.Sp.Style(), append([]rune{o.R}, o.Comb...)...)
			} else {
				s.SetContent(o.X, o.Y, o.R, o.Comb, o.Sp.Style())
			}
			if m.In(o.X, o.Y) {
				touch(o.X, o.Y, o.R, o.Comb, o.Sp)
				m.Set(o.X, o.Y, o.R, o.Comb, o.Sp)
			}
		case "restore":
			if !m.In(o.X, o.Y) || m.IsHidden(o.X, o.Y) {
				continue
			}
			c := m.C[o.Y*m.W+o.X]
			if o.CS >= 3 {
				nc := shadow.Recomb(c.Comb)
				if nc == nil {
					continue
				}
				s.SetContent(o.X, o.Y, c.R, nc, c.St.Style())
				touch(o.X, o.Y, c.R, nc, c.St)
				m.Set(o.X, o.Y, c.R, nc, c.St)
				continue
			}
			s.SetContent(o.X, o.Y, c.R, append([]rune{}, c.Comb...), c.St.Style())
		case "fill", "clear":
			rn, sp := o.R, o.Sp
			if o.K == "clear" {
				rn, sp = ' ', shadow.Spec{}
				s.Clear()
			} else {
				s.Fill(rn, sp.Style())
			}
			for y := 0; y < m.H; y++ {
				for x := 0; x < m.W; x++ {
					touch(x, y, rn, nil, sp)
					m.Set(x, y, rn, nil, sp)
				}
			}
		case "setstyle":
			s.SetStyle(o.Sp.Style())
			m.Def = o.Sp
			defHist = append(defHist, o.Sp)
			for i := range m.C {
				if m.C[i].St.IsDefault() {
					touched[i] = true
				}
			}
		case "cursor":
			s.ShowCursor(o.X, o.Y)
		case "hidecursor":
			s.HideCursor()
		case "show":
			s.Show()
			if c, w := check(tag, false); c != "" {
				return c, w
			}
			s.Show()
			pg.drain()
			for p, g := range pg.cells {
				if g.stamp == pg.stamp {
					return "idle-show-drew-cell", fmt.Sprintf("%s: a Show() directly after a Show() called drawCell(%d,%d)", tag, p[0], p[1])
				}
			}
		case "sync", "corruptsync":
			s.Sync()
			if c, w := check(tag, true); c != "" {
				return c, w
			}
		case "lock":
			s.LockRegion(o.X, o.Y, o.W, o.H, o.Lock)
			for j := o.Y; j < o.Y+o.H && j < m.H; j++ {
				for i2 := o.X; i2 < o.X+o.W && i2 < m.W; i2++ {
					if j >= 0 && i2 >= 0 {
						m.C[j*m.W+i2].Lock = o.Lock
						if !o.Lock {
							unlocked[j*m.W+i2] = true
						}
					}
				}
			}
		}
	}
	return "", ""
}

// ---------------------------------------------------------------------------

func pollAll(s tcell.Screen) []tcell.Event {
	var out []tcell.Event
	for s.HasPendingEvent() {
		out = append(out, s.PollEvent())
	}
	return out
}

func modsOf(m int) (shift, alt, ctrl, meta bool, mask tcell.ModMask) {
	shift, alt, ctrl, meta = m&1 != 0, m&2 != 0, m&4 != 0, m&8 != 0
	if shift {
		mask |= tcell.ModShift
	}
	if alt {
		mask |= tcell.ModAlt
	}
	if ctrl {
		mask |= tcell.ModCtrl
	}
	if meta {
		mask |= tcell.ModMeta
	}
	return
}

func callbacks() {
	s, _ := tcell.NewTerminfoScreen()
	if err := s.Init(); err != nil {
		violate("init", err.Error())
		return
	}
	defer s.Fini()
	g := js.Global()
	var names []string
	for n := range tcell.WebKeyNames {
		names = append(names, n)
	}
	sort.Strings(names)
	names = append(names, "a", "Z", "5", "é", "世", "~", " ")
	for _, name := range names {
		for m := 0; m < 16; m++ {
			sh, al, ct, me, mask := modsOf(m)
			g.Call("onKeyEvent", name, sh, al, ct, me)
			evs := pollAll(s)
			rep.Evaluations++
			rep.Distinct++
			var wantKey tcell.Key
			var wantRune rune
			if k, ok := tcell.WebKeyNames["Ctrl-"+strings.ToLower(name)]; ok && mask == tcell.ModCtrl {
				wantKey = k
			} else if k, ok := tcell.WebKeyNames[name]; ok {
				wantKey = k
			} else {
				wantKey = tcell.KeyRune
				wantRune = []rune(name)[0]
			}
			if len(evs) != 1 {
				violate("key:count", fmt.Sprintf("onKeyEvent(%q, mods %d) produced %d events", name, m, len(evs)))
				continue
			}
			ek, ok := evs[0].(*tcell.EventKey)
			if !ok || ek.Key() != wantKey || ek.Modifiers() != mask || (wantKey == tcell.KeyRune && ek.Rune() != wantRune) {
				violate("key:wrong", fmt.Sprintf("onKeyEvent(%q, mods %d) produced %T %+v, expected key %d rune %q mods %d", name, m, evs[0], evs[0], wantKey, wantRune, mask))
			}
		}
	}
	for _, mk := range []string{"Shift", "Control", "Alt", "Meta"} {
		g.Call("onKeyEvent", mk, false, false, false, false)
		if evs := pollAll(s); len(evs) != 0 {
			violate("key:modifier-as-key", fmt.Sprintf("bare modifier key %q produced an event", mk))
		}
	}
	// mouse
	type fs struct {
		name  string
		set   func()
		flags int // 1 button 2 drag 4 motion
	}
	var sets []fs
	for f := 1; f < 8; f++ {
		f := f
		sets = append(sets, fs{fmt.Sprintf("EnableMouse(%d)", f), func() {
			var fl []tcell.MouseFlags
			for b := 0; b < 3; b++ {
				if f&(1<<b) != 0 {
					fl = append(fl, tcell.MouseFlags(1<<b))
				}
			}
			s.EnableMouse(fl...)
		}, f})
	}
	sets = append(sets, fs{"EnableMouse()", func() { s.EnableMouse() }, 7}, fs{"DisableMouse()", func() { s.DisableMouse() }, 0},
		// an explicit, empty set of flags enables nothing (it is not the same as giving none)
		fs{"EnableMouse(0)", func() { s.EnableMouse(0) }, 0}, fs{"EnableMouse(0,0)", func() { s.EnableMouse(0, 0) }, 0})
	btnOf := map[int]tcell.ButtonMask{0: tcell.ButtonNone, 1: tcell.Button1, 2: tcell.Button3, 3: tcell.Button2}
	type pair struct {
		prev, cur fs
		susp      bool
	}
	var pairs []pair
	for _, a := range sets {
		for _, b := range sets {
			pairs = append(pairs, pair{a, b, false})
			if a.flags != b.flags {
				// the second setting is made while the screen is suspended
				pairs = append(pairs, pair{a, b, true})
			}
		}
	}
	for _, pr := range pairs {
		pr.prev.set()
		st := pr.cur
		if pr.susp {
			_ = s.Suspend()
			st.set()
			_ = s.Resume()
			st.name = pr.prev.name + ", Suspend, " + st.name + ", Resume"
		} else {
			st.set()
			st.name = pr.prev.name + " then " + st.name
		}
		for _, handler := range []string{"onMouseClick", "onMouseMove"} {
			for which := 0; which <= 3; which++ {
				for m := 0; m < 8; m++ {
					sh, al, ct, _, mask := modsOf(m)
					x, y := 3+which, 5+m
					g.Call(handler, x, y, which, sh, al, ct)
					evs := pollAll(s)
					rep.Evaluations++
					rep.Distinct++
					must, mustNot := false, false
					switch {
					case st.flags == 0:
						mustNot = true
					case which == 0:
						must, mustNot = st.flags&4 != 0 && handler == "onMouseMove", st.flags&4 == 0
					case handler == "onMouseClick":
						must = st.flags&1 != 0
					default: // drag through onMouseMove
						must, mustNot = st.flags&6 != 0, st.flags == 1
					}
					if mustNot && len(evs) != 0 {
						violate("mouse:honoured-while-disabled", fmt.Sprintf("after %s: %s(which=%d) produced %d event(s)", st.name, handler, which, len(evs)))
						continue
					}
					if must {
						if len(evs) != 1 {
							violate("mouse:not-delivered", fmt.Sprintf("after %s: %s(which=%d) produced %d events", st.name, handler, which, len(evs)))
							continue
						}
						em, ok := evs[0].(*tcell.EventMouse)
						if !ok {
							violate("mouse:wrong", fmt.Sprintf("after %s: %s produced %T", st.name, handler, evs[0]))
							continue
						}
						ex, ey := em.Position()
						if ex != x || ey != y || em.Buttons() != btnOf[which] || em.Modifiers() != mask {
							violate("mouse:wrong", fmt.Sprintf("after %s: %s(%d,%d,which=%d,mods=%d) produced position (%d,%d) buttons %#x mods %d", st.name, handler, x, y, which, m, ex, ey, int(em.Buttons()), em.Modifiers()))
						}
					}
				}
			}
		}
	}
	s.DisableMouse()
	// paste and focus
	for _, on := range []bool{true, false, true} {
		if on {
			s.EnablePaste()
			s.EnableFocus()
		} else {
			s.DisablePaste()
			s.DisableFocus()
		}
		for _, arg := range []bool{true, false} {
			for _, h := range []string{"onPaste", "onFocus"} {
				g.Call(h, arg)
				evs := pollAll(s)
				rep.Evaluations++
				rep.Distinct++
				if !on {
					if len(evs) != 0 {
						violate("paste-focus:honoured-while-disabled", fmt.Sprintf("%s(%v) produced an event while disabled", h, arg))
					}
					continue
				}
				if len(evs) != 1 {
					violate("paste-focus:not-delivered", fmt.Sprintf("%s(%v) produced %d events", h, arg, len(evs)))
					continue
				}
				switch e := evs[0].(type) {
				case *tcell.EventPaste:
					if h != "onPaste" || e.Start() != arg {
						violate("paste-focus:wrong", fmt.Sprintf("%s(%v) produced paste start=%v", h, arg, e.Start()))
					}
				case *tcell.EventFocus:
					if h != "onFocus" || e.Focused != arg {
						violate("paste-focus:wrong", fmt.Sprintf("%s(%v) produced focus=%v", h, arg, e.Focused))
					}
				default:
					violate("paste-focus:wrong", fmt.Sprintf("%s produced %T", h, evs[0]))
				}
			}
		}
	}
	rep.Samples = append(rep.Samples, map[string]any{"kind": "callbacks", "key_names": len(names), "modifier_combinations": 16, "mouse_flag_sets": len(sets)})
}

// ---------------------------------------------------------------------------

// step runs f on its own goroutine and waits for it in scheduler steps
// (js/wasm is single threaded: if f has not finished after that many yields it
// is blocked for good).
func step(f func()) bool {
	done := false
	go func() { f(); done = true }()
	for i := 0; i < 2000 && !done; i++ {
		runtime.Gosched()
	}
	return done
}

var lifecycleQuick = true
var lifePart, lifeParts = 0, 1

func lifecycle() {
	calls := []string{"Suspend", "Resume", "SetSize", "SetSizeSame", "Fini", "Show"}
	var seqs [][]int
	var gen func(pre []int)
	gen = func(pre []int) {
		if len(pre) > 0 {
			seqs = append(seqs, append([]int{}, pre...))
		}
		if len(pre) == 4 {
			return
		}
		for c := range calls {
			gen(append(pre, c))
		}
	}
	gen(nil)
	// application state that Resume re-applies: none, each mode alone, everything
	configs := []struct {
		name string
		f    func(s tcell.Screen)
	}{
		{"plain", func(s tcell.Screen) {}},
		{"EnablePaste", func(s tcell.Screen) { s.EnablePaste() }},
		{"EnableMouse", func(s tcell.Screen) { s.EnableMouse() }},
		{"EnableFocus", func(s tcell.Screen) { s.EnableFocus() }},
		{"paste+mouse+focus+cursor+title", func(s tcell.Screen) {
			s.EnablePaste()
			s.EnableMouse(tcell.MouseMotionEvents)
			s.EnableFocus()
			s.ShowCursor(1, 1)
			s.SetCursorStyle(tcell.CursorStyleSteadyBar)
			s.SetTitle("t")
		}},
	}
	for ci, cfg := range configs {
		for qi, sq := range seqs {
			if (qi+ci)%lifeParts != lifePart {
				continue // another process of this run takes it
			}
			if lifecycleQuick && ci != 0 && ci != len(configs)-1 && qi%5 != ci {
				continue // quick: every sequence plain and with everything enabled, a fifth with each single mode
			}
			s, _ := tcell.NewTerminfoScreen()
			if err := s.Init(); err != nil {
				violate("init", err.Error())
				return
			}
			cfg.f(s)
			var names []string
			names = append(names, "["+cfg.name+"]")
			ok := true
			size := 0
			for _, c := range sq {
				names = append(names, calls[c])
				// js/wasm has no preemption: a call that spins takes the whole program with it, so
				// the parent is told what is about to be called
				fmt.Println("WASMCHK-STEP " + strings.Join(names, ","))
				returned := step(func() {
					switch calls[c] {
					case "Show":
						s.SetContent(1, 1, 'x', nil, tcell.StyleDefault)
						s.Show()
					case "Suspend":
						_ = s.Suspend()
					case "Resume":
						_ = s.Resume()
					case "SetSize":
						size++
						s.SetSize(60+size, 20+size)
					case "SetSizeSame":
						w, h := 80, 24
						if size > 0 {
							w, h = 60+size, 20+size
						}
						s.SetSize(w, h)
					case "Fini":
						s.Fini()
					}
				})
				if !returned {
					violate("lifecycle:call-blocked:"+calls[c], fmt.Sprintf("in the sequence %s the call %s never returned (all goroutines would be asleep)", strings.Join(names, ","), calls[c]))
					ok = false
					break
				}
				probe := step(func() { s.Size() })
				if !probe {
					violate("lifecycle:screen-wedged-after:"+calls[c], fmt.Sprintf("after the sequence %s a Size() call blocks forever (screen lock left held)", strings.Join(names, ",")))
					ok = false
					break
				}
				// drain resize events so that SetSize cannot block on a full queue
				for s.HasPendingEvent() {
					s.PollEvent()
				}
			}
			if ok {
				step(func() { s.Fini() })
			}
			rep.Evaluations++
			rep.Distinct++
			rep.Counters["lifecycle_sequences"]++
		}
	}
	// with the event queue full nobody can post: a SetSize to a new size waits for the consumer,
	// and a Fini (or Suspend) from another goroutine returns all the same and releases it
	if lifePart == 0 {
		for pending := 8; pending <= 10; pending++ {
			for _, second := range []string{"Fini", "Suspend+Fini"} {
				s, _ := tcell.NewTerminfoScreen()
				if err := s.Init(); err != nil {
					violate("init", err.Error())
					return
				}
				for s.HasPendingEvent() {
					s.PollEvent()
				}
				for i := 0; i < pending; i++ {
					_ = s.PostEvent(tcell.NewEventInterrupt(i))
				}
				fmt.Printf("WASMCHK-STEP [%d events pending],SetSize||%s\n", pending, second)
				sizeDone, otherDone := false, false
				go func() { s.SetSize(61, 21); sizeDone = true }()
				for i := 0; i < 200; i++ {
					runtime.Gosched()
				}
				go func() {
					if second == "Suspend+Fini" {
						_ = s.Suspend()
					}
					s.Fini()
					otherDone = true
				}()
				for i := 0; i < 4000 && !(sizeDone && otherDone); i++ {
					runtime.Gosched()
				}
				if !otherDone {
					violate("lifecycle:call-blocked:full-queue", fmt.Sprintf("with %d events pending and a SetSize to a new size in progress on another goroutine, %s never returns", pending, second))
				} else if !sizeDone {
					violate("lifecycle:setsize-not-released", fmt.Sprintf("with %d events pending, the SetSize that was waiting for room in the queue did not return after %s", pending, second))
				}
				rep.Evaluations++
				rep.Distinct++
				rep.Counters["lifecycle_full_queue_scenarios"]++
			}
		}
	}
	rep.Samples = append(rep.Samples, map[string]any{"kind": "lifecycle", "sequences": len(seqs), "configurations": len(configs), "example": "[EnablePaste] Suspend,Resume,SetSize,Fini"})
}

func main() {
	tier, seed := "quick", int64(1)
	if len(os.Args) > 1 {
		tier = os.Args[1]
	}
	if len(os.Args) > 2 {
		seed, _ = strconv.ParseInt(os.Args[2], 10, 64)
	}
	js.Global().Call("eval", stubs)
	// compile-time: the wasm screen satisfies the common interface
	var _ tcell.Screen
	nh := 60
	if tier == "thorough" {
		nh = 3000
		lifecycleQuick = false
	}
	// part p of n: every js.FuncOf of a screen stays referenced, so a long run is split
	// over several processes (the lifecycle sequences are shared out the same way; part 0 also runs the callback sweep)
	part, nparts := 0, 1
	if len(os.Args) > 4 {
		part, _ = strconv.Atoi(os.Args[3])
		nparts, _ = strconv.Atoi(os.Args[4])
	}
	if nparts < 1 {
		nparts = 1
	}
	lifePart, lifeParts = part, nparts
	lifecycle()
	if part == 0 {
		callbacks()
	}
	for hi := 0; hi < nh; hi++ {
		if hi%nparts == part {
			drawHistory(seed, hi)
		}
	}
	b, _ := json.Marshal(rep)
	fmt.Println("WASMCHK-REPORT " + string(b))
}
