package props

import (
	"errors"
	"fmt"
	"os"
	"reflect"
	"sort"
	"strings"

	"github.com/gdamore/tcell/v2"
	"github.com/gdamore/tcell/v2/terminfo"

	"verif/core"
	"verif/tiref"
	"verif/vt"
)

func init() { register("C14", C14) }

// number of parameters the library supplies for each parameterized capability
var capParams = map[string]int{
	"SetCursor": 2, "SetFg": 1, "SetBg": 1, "SetFgBg": 2, "SetFgRGB": 3, "SetBgRGB": 3, "SetFgBgRGB": 6,
	"EnterUrl": 2, "SetWindowSize": 2, "SetWindowTitle": 1, "CursorColorRGB": 3, "UnderlineColor": 1, "UnderlineColorRGB": 3,
}
var capStringParams = map[string]bool{"EnterUrl": true, "SetWindowTitle": true}

const (
	stdFgRGB   = "\x1b[38;2;%p1%d;%p2%d;%p3%dm"
	stdBgRGB   = "\x1b[48;2;%p1%d;%p2%d;%p3%dm"
	stdFgBgRGB = "\x1b[38;2;%p1%d;%p2%d;%p3%d;48;2;%p4%d;%p5%d;%p6%dm"
)

func setEnv(colorterm, tctc string) {
	if colorterm == "" {
		os.Unsetenv("COLORTERM")
	} else {
		os.Setenv("COLORTERM", colorterm)
	}
	if tctc == "" {
		os.Unsetenv("TCELL_TRUECOLOR")
	} else {
		os.Setenv("TCELL_TRUECOLOR", tctc)
	}
}

func lookupCopy(name string) (*terminfo.Terminfo, error) {
	t, err := terminfo.LookupTerminfo(name)
	if err != nil {
		return nil, err
	}
	return CopyTI(t), nil
}

func diffTI(a, b *terminfo.Terminfo) string {
	var d []string
	va, vb := reflect.ValueOf(a).Elem(), reflect.ValueOf(b).Elem()
	for i := 0; i < va.NumField(); i++ {
		if !reflect.DeepEqual(va.Field(i).Interface(), vb.Field(i).Interface()) {
			d = append(d, fmt.Sprintf("%s: %q vs %q", va.Type().Field(i).Name, fmt.Sprint(va.Field(i).Interface()), fmt.Sprint(vb.Field(i).Interface())))
		}
	}
	return strings.Join(d, "; ")
}

func C14(r *core.Run) {
	r.Rule = "exhaustive enumeration of the registry through the verif hook: every name and alias resolves with cursor addressing; every parameterized field is evaluated by the strict reference interpreter (no fault, no parameter above what the library passes); colour count vs colour strings (each index < min(colours,256) interpreted by the reference SGR interpreter); key sequences prefix-free; -256color / -truecolor synthesis vs base + standard strings; unknown names; COLORTERM / TCELL_TRUECOLOR matrix incl. screen-level effect; and every ORDERED PAIR of lookups over names, aliases, their -color/-88color/-256color/-truecolor variants and unknown names compared with a fresh lookup (registry restored from a pristine snapshot before each history). distinct by construction."
	r.Assumptions = []string{"-256color synthesis is only promised for bases that have a -color or -88color entry (what the lookup documents)", "the pristine snapshot is taken before any lookup"}
	r.Exhaustive = true
	snapshot()
	setEnv("", "")
	names := RegistryNames()
	r.Set("registered_names", len(names))

	// ---- per-entry well-formedness ----------------------------------------
	for _, name := range names {
		RestoreRegistry()
		ti, err := lookupCopy(name)
		if err != nil || ti == nil {
			r.Violate("resolve", fmt.Sprintf("registered name %q does not resolve: %v", name, err), name)
			continue
		}
		if ti.SetCursor == "" {
			r.Violate("no-cursor-addressing", fmt.Sprintf("entry %q (via %q) has no cursor addressing", ti.Name, name), name)
		}
		pr := Pristine(name)
		if d := diffTI(pr, ti); d != "" && !(pr.TrueColor && d != "") {
			// a plain lookup without environment must return the registered entry
			// (TrueColor entries may have RGB strings added)
			r.Violate("lookup-differs-from-registered", fmt.Sprintf("Lookup(%q) differs from the registered entry: %s", name, d), name)
		}
		r.CaseN(1, 1)
	}
	for ei, ti := range AllEntries() {
		for f, v := range StringFields(ti) {
			if !strings.Contains(v, "%") {
				continue
			}
			np, known := capParams[f]
			if !known {
				r.Violate("parameterized:unknown-capability", fmt.Sprintf("%s.%s = %q is parameterized but the harness knows of no parameters the library passes for it", ti.Name, f, v), nil)
				continue
			}
			for trial := 0; trial < 6; trial++ {
				ps := make([]tiref.Val, np)
				for i := range ps {
					if capStringParams[f] {
						ps[i] = tiref.Str([]string{"", "a", "http://x/y?z=1"}[trial%3])
					} else {
						ps[i] = tiref.Int([]int{0, 1, 7, 8, 15, 255}[(trial+i)%6])
					}
				}
				res := tiref.Eval(v, ps, nil)
				if len(res.Faults) > 0 || res.MaxP > np {
					r.Violate("parameterized:malformed:"+f, fmt.Sprintf("%s.%s = %q: strict evaluation with %d parameter(s) reports %v (highest parameter referenced %d)", ti.Name, f, v, np, res.Faults, res.MaxP), nil)
					break
				}
			}
			r.CaseN(1, 1)
		}
		// colours
		if (ti.Colors == 0) != (ti.SetFg == "" && ti.SetBg == "") {
			r.Violate("colors:count-vs-strings", fmt.Sprintf("%s: Colors=%d but SetFg=%q SetBg=%q", ti.Name, ti.Colors, ti.SetFg, ti.SetBg), nil)
		}
		if ti.Colors > 256 && !ti.TrueColor {
			r.Violate("colors:direct-without-truecolor", fmt.Sprintf("%s: Colors=%d without TrueColor", ti.Name, ti.Colors), nil)
		}
		if !nonECMA[ti.Name] {
			n := ti.Colors
			if n > 256 {
				n = 256
			}
			for i := 0; i < n; i++ {
				for which, capstr := range map[string]string{"fg": ti.SetFg, "bg": ti.SetBg} {
					if capstr == "" {
						continue
					}
					b, _, _ := tiref.StripPadding(ti.TParm(capstr, i))
					tm := vt.New(2, 1)
					tm.Feed(b)
					got := tm.Pen.Fg
					if which == "bg" {
						got = tm.Pen.Bg
					}
					if len(tm.Errors) > 0 || len(tm.Unknown) > 0 || tm.TextRunes > 0 || got.K != vt.Indexed || got.V != i {
						r.Violate("colors:index-selects-wrong-colour", fmt.Sprintf("%s: %s string for index %d is %q, which selects %v (errors %v, unknown %v)", ti.Name, which, i, b, got, tm.Errors, tm.Unknown), nil)
						break
					}
				}
			}
			r.CaseN(int64(n), int64(n))
		}
		// key prefix freedom on the description
		desc := descKeys(ti)
		var seqs []string
		for s := range desc {
			seqs = append(seqs, s)
		}
		sort.Strings(seqs)
		for i, a := range seqs {
			for j, b := range seqs {
				if i != j && strings.HasPrefix(b, a) {
					r.Violate("keys:prefix", fmt.Sprintf("%s: key sequence %q is a proper prefix of %q", ti.Name, a, b), nil)
				}
			}
		}
		// static strings tokenize on the reference terminal
		if !nonECMA[ti.Name] {
			for f, v := range StringFields(ti) {
				if v == "" || strings.HasPrefix(f, "Key") || strings.Contains(v, "%") || f == "Name" || f == "AltChars" || f == "PadChar" || f == "Mouse" || f == "PasteStart" || f == "PasteEnd" {
					continue
				}
				b, _, _ := tiref.StripPadding(v)
				tm := vt.New(10, 4)
				tm.FFClears = strings.HasPrefix(ti.Name, "sun")
				tm.Feed(b)
				if len(tm.Errors) > 0 || !tm.InGround() {
					r.Violate("capability:malformed:"+f, fmt.Sprintf("%s.%s = %q does not parse as complete control sequences: %v", ti.Name, f, v, tm.Errors), nil)
				}
				if len(tm.Unknown) > 0 {
					r.Count("capability_strings_with_controls_unknown_to_the_emulator", 1)
				}
				r.CaseN(1, 1)
			}
		}
		if ei < 3 {
			r.Sample(6, map[string]any{"kind": "entry", "name": ti.Name, "colors": ti.Colors, "key_sequences": len(seqs)})
		}
	}

	// ---- synthesis ----------------------------------------------------------
	base := map[string]bool{}
	for _, n := range names {
		b := n
		for _, suf := range []string{"-truecolor", "-256color", "-88color", "-color"} {
			b = strings.TrimSuffix(b, suf)
		}
		base[b] = true
	}
	var bases []string
	for b := range base {
		bases = append(bases, b)
	}
	sort.Strings(bases)
	for _, b := range bases {
		// -truecolor
		RestoreRegistry()
		var from *terminfo.Terminfo
		var fromName string
		for _, suf := range []string{"-256color", "-88color", "-color", ""} {
			// the variant may itself be a synthesized one (eterm-256color from
			// eterm-color): take what a fresh lookup of it returns
			RestoreRegistry()
			if p, err := lookupCopy(b + suf); err == nil {
				from, fromName = p, b+suf
				break
			}
		}
		RestoreRegistry()
		name := b + "-truecolor"
		if Pristine(name) == nil && from != nil {
			got, err := lookupCopy(name)
			if err != nil {
				r.Violate("synthesis:truecolor-fails", fmt.Sprintf("Lookup(%q) fails (%v) although %q is known", name, err, fromName), name)
			} else {
				want := CopyTI(from)
				if want.SetFgBgRGB == "" && want.SetFgRGB == "" && want.SetBgRGB == "" {
					want.SetFgRGB, want.SetBgRGB, want.SetFgBgRGB = stdFgRGB, stdBgRGB, stdFgBgRGB
				}
				if d := diffTI(want, got); d != "" {
					r.Violate("synthesis:truecolor-differs", fmt.Sprintf("Lookup(%q) is not %q plus the standard 24-bit strings: %s", name, fromName, d), name)
				}
			}
			r.CaseN(1, 1)
		}
		// -256color
		RestoreRegistry()
		name = b + "-256color"
		from = nil
		for _, suf := range []string{"-88color", "-color"} {
			if p := Pristine(b + suf); p != nil {
				from, fromName = p, b+suf
				break
			}
		}
		if Pristine(name) == nil && from != nil {
			got, err := lookupCopy(name)
			if err != nil {
				r.Violate("synthesis:256color-fails", fmt.Sprintf("Lookup(%q) fails (%v) although %q is known", name, err, fromName), name)
			} else {
				want := CopyTI(from)
				want.Colors = 256
				want.SetFg = "\x1b[%?%p1%{8}%<%t3%p1%d%e%p1%{16}%<%t9%p1%{8}%-%d%e38;5;%p1%d%;m"
				want.SetBg = "\x1b[%?%p1%{8}%<%t4%p1%d%e%p1%{16}%<%t10%p1%{8}%-%d%e48;5;%p1%d%;m"
				want.SetFgBg = "\x1b[%?%p1%{8}%<%t3%p1%d%e%p1%{16}%<%t9%p1%{8}%-%d%e38;5;%p1%d%;;%?%p2%{8}%<%t4%p2%d%e%p2%{16}%<%t10%p2%{8}%-%d%e48;5;%p2%d%;m"
				want.ResetFgBg = "\x1b[39;49m"
				if d := diffTI(want, got); d != "" {
					r.Violate("synthesis:256color-differs", fmt.Sprintf("Lookup(%q) is not %q plus the standard 256-colour strings: %s", name, fromName, d), name)
				}
				// the synthesized strings select index i
				for i := 0; i < 256; i++ {
					tm := vt.New(2, 1)
					tm.Feed([]byte(got.TParm(got.SetFgBg, i, 255-i)))
					if tm.Pen.Fg != (vt.Col{K: vt.Indexed, V: i}) || tm.Pen.Bg != (vt.Col{K: vt.Indexed, V: 255 - i}) || len(tm.Errors) > 0 {
						r.Violate("synthesis:256color-strings", fmt.Sprintf("%q: SetFgBg(%d,%d) selects %v/%v", name, i, 255-i, tm.Pen.Fg, tm.Pen.Bg), name)
						break
					}
				}
			}
			r.CaseN(1, 1)
		}
	}
	// unknown names
	unknownNames := []string{"", "nosuchterm", "xterm-nosuch", "nosuch-256color", "nosuch-truecolor", "dumb", "-truecolor", "-256color", "XTERM"}
	// names that merely contain a known name or a known suffix: junk after the suffix, the suffix
	// doubled or in the middle, a known name with a prefix or in other case
	snapshot()
	var known []string
	for k := range snapMap {
		known = append(known, k)
	}
	sort.Strings(known)
	for i, k := range known {
		base := k
		for _, suf := range []string{"-256color", "-88color", "-16color", "-color", "-truecolor", "-direct"} {
			base = strings.TrimSuffix(base, suf)
		}
		cands := []string{base + "-256colorX", base + "-256color2", base + "-256color-bogus", base + "-truecolorX", base + "-truecolor-bogus", base + "-256color-256colorz", "x" + k, k + "x", k + "-", strings.ToUpper(k[:1]) + k[1:] + "_"}
		unknownNames = append(unknownNames, cands[i%len(cands)], cands[(i+3)%len(cands)], cands[(i+7)%len(cands)])
	}
	for _, n := range unknownNames {
		if _, isKnown := snapMap[n]; isKnown {
			continue
		}
		RestoreRegistry()
		_, err := terminfo.LookupTerminfo(n)
		if !errors.Is(err, terminfo.ErrTermNotFound) {
			r.Violate("unknown-name", fmt.Sprintf("Lookup(%q) returned error %v, expected ErrTermNotFound", n, err), n)
		}
		r.CaseN(1, 1)
	}

	// ---- environment --------------------------------------------------------
	for _, ct := range []string{"", "truecolor", "24bit", "24-bit", "yes"} {
		for _, tt := range []string{"", "disable", "enable"} {
			setEnv(ct, tt)
			for _, n := range []string{"xterm", "xterm-256color", "vt100", "linux", "rxvt-unicode", "xterm-direct", "alacritty-direct", "screen-256color"} {
				RestoreRegistry()
				got, err := lookupCopy(n)
				if err != nil {
					r.Violate("env:lookup-fails", fmt.Sprintf("COLORTERM=%q TCELL_TRUECOLOR=%q Lookup(%q): %v", ct, tt, n, err), nil)
					continue
				}
				pr := Pristine(n)
				native := pr.SetFgRGB != "" || pr.SetBgRGB != "" || pr.SetFgBgRGB != ""
				wantAdd := ct == "truecolor" || ct == "24bit" || ct == "24-bit" || pr.TrueColor
				switch tt {
				case "disable":
					wantAdd = false
				case "enable":
					wantAdd = true
				}
				has := got.SetFgRGB != "" || got.SetBgRGB != "" || got.SetFgBgRGB != ""
				if has != (native || wantAdd) {
					r.Violate("env:direct-colour", fmt.Sprintf("COLORTERM=%q TCELL_TRUECOLOR=%q Lookup(%q): 24-bit strings present=%v, expected %v", ct, tt, n, has, native || wantAdd), nil)
				}
				// screen level
				ls, err := startScreen(got, 10, 3, nil)
				if err != nil {
					r.Inconclusive("env screen: " + err.Error())
					continue
				}
				ls.tty.Locked(func() { ls.tty.KeepRaw = true })
				wantTC := has && tt != "disable"
				wantColors := got.Colors
				if wantTC {
					wantColors = 1 << 24
				}
				if c := ls.s.Colors(); c != wantColors {
					r.Violate("env:screen-colors", fmt.Sprintf("COLORTERM=%q TCELL_TRUECOLOR=%q %s: Screen.Colors()=%d expected %d", ct, tt, n, c, wantColors), nil)
				}
				ls.tty.BeginApp()
				ls.s.SetContent(1, 1, 'x', nil, tcell.StyleDefault.Foreground(tcell.NewRGBColor(1, 2, 3)).Background(tcell.NewRGBColor(4, 5, 6)))
				ls.s.Show()
				ls.tty.EndApp()
				var raw string
				ls.tty.Locked(func() { raw = string(ls.tty.Raw) })
				sawRGB := strings.Contains(raw, "38;2;1;2;3") || strings.Contains(raw, "38:2::1:2:3") || strings.Contains(raw, "38:2:1:2:3")
				if got.Colors > 0 && sawRGB != wantTC {
					r.Violate("env:screen-rgb-output", fmt.Sprintf("COLORTERM=%q TCELL_TRUECOLOR=%q %s: 24-bit sequence in output=%v, expected %v", ct, tt, n, sawRGB, wantTC), nil)
				}
				ls.fini()
				r.CaseN(1, 1)
			}
		}
	}
	setEnv("", "")

	// ---- order independence: all ordered pairs --------------------------------
	var univ []string
	seen := map[string]bool{}
	add := func(n string) {
		if !seen[n] {
			seen[n] = true
			univ = append(univ, n)
		}
	}
	for _, n := range names {
		add(n)
	}
	for _, b := range bases {
		for _, suf := range []string{"-color", "-88color", "-256color", "-truecolor"} {
			add(b + suf)
		}
	}
	add("nosuchterm")
	add("nosuch-truecolor")
	sort.Strings(univ)
	r.Set("lookup_universe", len(univ))
	type res struct {
		ti  *terminfo.Terminfo
		err string
	}
	for _, env := range [][2]string{{"", ""}, {"truecolor", ""}, {"", "disable"}} {
		setEnv(env[0], env[1])
		fresh := map[string]res{}
		for _, n := range univ {
			RestoreRegistry()
			t, err := lookupCopy(n)
			e := ""
			if err != nil {
				e = err.Error()
			}
			fresh[n] = res{t, e}
		}
		sub := univ
		if env[0] != "" || env[1] != "" {
			// other environments: a seeded third of the universe as first lookups
			rg := r.Rand("pairs", env[0], env[1])
			sub = nil
			for _, n := range univ {
				if rg.IntN(3) == 0 {
					sub = append(sub, n)
				}
			}
		}
		bad := 0
		for _, a := range sub {
			for _, b := range univ {
				RestoreRegistry()
				_, _ = terminfo.LookupTerminfo(a)
				t, err := lookupCopy(b)
				e := ""
				if err != nil {
					e = err.Error()
				}
				f := fresh[b]
				if e != f.err || (t == nil) != (f.ti == nil) || (t != nil && !reflect.DeepEqual(t, f.ti)) {
					bad++
					d := ""
					if t != nil && f.ti != nil {
						d = diffTI(f.ti, t)
					}
					r.Violate("lookup-order:"+pairClass(a, b), fmt.Sprintf("COLORTERM=%q TCELL_TRUECOLOR=%q: Lookup(%q) after Lookup(%q) differs from a fresh Lookup(%q): err %q vs %q; %s", env[0], env[1], b, a, b, e, f.err, short(d, 300)), []string{a, b})
				}
			}
		}
		n := int64(len(sub)) * int64(len(univ))
		r.CaseN(n, n)
		if env[0] == "" && env[1] == "" {
			r.Sample(6, map[string]any{"kind": "lookup pair", "first": univ[0], "second": univ[len(univ)-1], "pairs_in_this_environment": n})
		}
	}
	setEnv("", "")
	RestoreRegistry()
}

func pairClass(a, b string) string {
	cl := func(n string) string {
		for _, suf := range []string{"-truecolor", "-256color", "-88color", "-color"} {
			if strings.HasSuffix(n, suf) {
				return "*" + suf
			}
		}
		return "plain"
	}
	return cl(a) + "," + cl(b)
}
