package props

import (
	"bytes"
	"encoding/base64"
	"fmt"
	"github.com/gdamore/tcell/v2"
	"math/rand/v2"
	"sort"
	"strings"
	"time"

	"github.com/gdamore/tcell/v2/terminfo"

	"verif/core"
)

func init() { register("C02", C02) }

type token struct {
	class string
	b     []byte
}

type tokGen struct {
	ti      *terminfo.Terminfo
	keys    []string // multi-byte and single-byte key sequences (no lone ESC)
	ps, pe  string
	mouse   bool
	clip    bool
	charset string
}

func newTokGen(ti *terminfo.Terminfo, charset string) *tokGen {
	g := &tokGen{ti: ti, charset: charset, mouse: tiHasMouse(ti), clip: tiHasClipboard(ti)}
	for k := range keyTable(ti) {
		if k != "\x1b" {
			g.keys = append(g.keys, k)
		}
	}
	sort.Strings(g.keys)
	g.ps, g.pe = tiPasteKeys(ti)
	return g
}

var c02text = []string{"a", "hello", "Z9", " ", "~", "é", "λx", "世界", "😀", "é", "ab;12", "[x]", "OK", "5", "M", "<"}

// gen returns one token; framingOK says whether the token decodes the same
// alone and inside any concatenation (no parser state, not a prefix of
// anything longer).
func (g *tokGen) gen(rg *rand.Rand) (t token, framingOK bool) {
	for {
		switch k := rg.IntN(100); {
		case k < 30:
			if len(g.keys) == 0 {
				continue
			}
			s := g.keys[rg.IntN(len(g.keys))]
			cl := "key"
			if len(s) == 1 {
				cl = "ctrlbyte"
			}
			return token{cl, []byte(s)}, true
		case k < 45:
			s := c02text[rg.IntN(len(c02text))]
			if g.charset != "UTF-8" {
				s = []string{"a", "hello", "Z9", " ", "[x]", "5;7", "M"}[rg.IntN(7)]
			}
			return token{"text", []byte(s)}, true
		case k < 58:
			if !g.mouse {
				continue
			}
			btn := []int{0, 1, 2, 64, 65, 4, 8, 16, 28}[rg.IntN(9)]
			fin := "M"
			if rg.IntN(3) == 0 && btn < 64 {
				fin = "m"
			}
			intro := "\x1b["
			if rg.IntN(8) == 0 {
				intro = "\x9b"
			}
			if g.charset != "UTF-8" {
				intro = "\x1b["
			}
			return token{"sgrmouse", []byte(fmt.Sprintf("%s<%d;%d;%d%s", intro, btn, 1+rg.IntN(80), 1+rg.IntN(24), fin))}, true
		case k < 62:
			if !g.mouse {
				continue
			}
			// motion report: depends on the held-button state, so not framing-safe
			return token{"sgrmotion", []byte(fmt.Sprintf("\x1b[<%d;%d;%dM", 32+rg.IntN(4), 1+rg.IntN(80), 1+rg.IntN(24)))}, false
		case k < 66:
			if !g.mouse {
				continue
			}
			return token{"x11mouse", []byte{0x1b, '[', 'M', byte(32 + []int{0, 1, 2, 3}[rg.IntN(4)]), byte(33 + rg.IntN(80)), byte(33 + rg.IntN(24))}}, true
		case k < 74:
			if g.ps == "" {
				continue
			}
			if rg.IntN(2) == 0 {
				return token{"paste", []byte(g.ps)}, true
			}
			return token{"paste", []byte(g.pe)}, true
		case k < 80:
			if rg.IntN(2) == 0 {
				return token{"focus", []byte("\x1b[I")}, true
			}
			return token{"focus", []byte("\x1b[O")}, true
		case k < 88:
			if !g.clip {
				continue
			}
			n := rg.IntN(12)
			data := make([]byte, n)
			for i := range data {
				data[i] = byte(rg.IntN(256))
			}
			term := "\x07"
			if rg.IntN(2) == 0 {
				term = "\x1b\\"
			}
			return token{"osc52", []byte("\x1b]52;c;" + base64.StdEncoding.EncodeToString(data) + term)}, true
		case k < 92:
			return token{"esc", []byte{0x1b}}, false
		case k < 96:
			b := []byte{0xff, 0xc3, 0x80, 0xe4, 0xb8, 0xf0, 0x9f}[rg.IntN(7)]
			return token{"invalidbyte", []byte{b}}, false
		default:
			frag := []string{"\x1b[", "\x1b[<", "\x1b[<0;", "\x1bO", "\x1b]52;c;", "\x1b[M", "\x1b[200", "\x1b]5"}[rg.IntN(8)]
			return token{"fragment", []byte(frag)}, false
		}
	}
}

func joinTokens(ts []token) []byte {
	var b []byte
	for _, t := range ts {
		b = append(b, t.b...)
	}
	return b
}

func tokClasses(ts []token) string {
	set := map[string]bool{}
	for _, t := range ts {
		set[t.class] = true
	}
	var out []string
	for c := range set {
		out = append(out, c)
	}
	sort.Strings(out)
	return strings.Join(out, "+")
}

// chunkViolation checks all required partitions of s; returns a description of
// the first disagreement.
func chunkViolation(r *core.Run, d *decoder, s []byte, rg *rand.Rand, nrand int) string {
	whole, left, pan := d.whole(s)
	if pan != nil {
		return fmt.Sprintf("panic decoding %q in one read: %v", s, pan)
	}
	if left != 0 {
		return fmt.Sprintf("%d byte(s) still buffered after the escape timeout expired (input %q)", left, s)
	}
	try := func(parts [][]byte) string {
		got, left, pan := d.chunks(parts)
		r.Count("partitions", 1)
		if pan != nil {
			return fmt.Sprintf("panic decoding %q split as %q: %v", s, parts, pan)
		}
		if left != 0 {
			return fmt.Sprintf("%d byte(s) still buffered after expiry (input %q split as %q)", left, s, parts)
		}
		if !evsEq(got, whole) {
			return fmt.Sprintf("input %q: one read gives %s, split as %q gives %s", s, evsStr(whole), parts, evsStr(got))
		}
		return ""
	}
	n := len(s)
	if n <= 1 {
		return ""
	}
	if n <= 10 {
		for mask := uint64(1); mask < 1<<uint(n-1); mask++ {
			if v := try(partition(s, mask)); v != "" {
				return v
			}
		}
		return ""
	}
	for c := 1; c < n; c++ {
		if v := try(partitionAt(s, []int{c})); v != "" {
			return v
		}
	}
	for k := 0; k < nrand; k++ {
		nc := 1 + rg.IntN(6)
		if rg.IntN(4) == 0 {
			nc = n // every byte on its own, mostly
		}
		cuts := make([]int, nc)
		for i := range cuts {
			cuts[i] = 1 + rg.IntN(n-1)
		}
		if v := try(partitionAt(s, cuts)); v != "" {
			return v
		}
	}
	return ""
}

func C02(r *core.Run) {
	r.Rule = "for every database entry: seeded token strings (keys of the entry's table, SGR/X11 mouse reports, paste brackets, focus reports, OSC 52 replies, UTF-8 text, lone ESC, invalid bytes, sequence fragments) and random byte strings over a weighted alphabet, each decoded through the real collectEventsFromInput (verif hook) in one read and under partitions (all 2^(n-1) for n<=10, every single split point plus random multi-cuts otherwise), no expiry in between, expiry at the end; events must be identical and nothing may stay buffered. Framing: for strings of state-free tokens the one-read decoding must equal the concatenation of the per-token decodings. A sample is also driven through the real inputLoop/mainLoop pipeline. distinct = distinct (entry class, byte string)."
	r.Assumptions = []string{"expire=false on every chunk models 'no escape timeout expiring in between'", "the synchronous hook runs the same collectEventsFromInput the main loop runs (validated by the pipeline sample)"}
	entries := AllEntries()
	perEntry := r.Pick(600, 40000)
	nrandPart := r.Pick(12, 64)
	core.Parallel(len(entries), func(ei int) {
		ti := entries[ei]
		for _, cs := range []string{"UTF-8", "ISO8859-1"} {
			g := newTokGen(ti, cs)
			d, err := newDecoder(ti, cs, 100, 40)
			if err != nil {
				r.Inconclusive(ti.Name + ": " + err.Error())
				continue
			}
			n := perEntry
			if cs != "UTF-8" {
				n = perEntry / 6
			}
			for i := 0; i < n; i++ {
				rg := r.Rand("tok", ti.Name, cs, i)
				// decoding must not depend on the modes the application has switched on
				modeSet := rg.IntN(8)
				d.modes([]tcell.MouseFlags{0, tcell.MouseButtonEvents, tcell.MouseDragEvents | tcell.MouseButtonEvents, tcell.MouseMotionEvents}[modeSet%4], modeSet&4 != 0, modeSet&2 != 0 || modeSet == 7)
				r.Count(fmt.Sprintf("token_strings_mode_set_%d", modeSet), 1)
				nt := 1 + rg.IntN(6)
				var ts []token
				allOK := true
				for k := 0; k < nt; k++ {
					t, ok := g.gen(rg)
					if k > 0 && rg.IntN(6) == 0 {
						// the same report or key again (a repeated motion report, key auto-repeat)
						t = ts[k-1]
						if t.class == "sgrmotion" {
							ok = false
						}
					}
					// a token that is a proper prefix of one of this entry's key
					// sequences (rxvt: focus-out ESC [ O vs Ctrl-Up ESC [ O a) is
					// ambiguous by the description itself: not framing-safe
					for _, ks := range g.keys {
						if len(ks) > len(t.b) && strings.HasPrefix(ks, string(t.b)) {
							ok = false
						}
					}
					ts = append(ts, t)
					allOK = allOK && ok
				}
				s := joinTokens(ts)
				r.Case(fmt.Sprintf("tok|%s|%s|%x", ti.Name, cs, s))
				if v := chunkViolation(r, d, s, rg, nrandPart); v != "" {
					// shrink by dropping tokens
					for changed := true; changed; {
						changed = false
						for k := 0; k < len(ts) && len(ts) > 1; k++ {
							cand := append(append([]token{}, ts[:k]...), ts[k+1:]...)
							if v2 := chunkViolation(r, d, joinTokens(cand), rg, nrandPart); v2 != "" {
								ts, v, changed = cand, v2, true
								k--
							}
						}
					}
					r.Violate("chunking:"+tokClasses(ts), fmt.Sprintf("%s/%s: %s", ti.Name, cs, v), map[string]any{"entry": ti.Name, "charset": cs, "input": fmt.Sprintf("%q", joinTokens(ts))})
					continue
				}
				if allOK {
					whole, _, _ := d.whole(s)
					var exp []NEv
					for _, t := range ts {
						e, _, _ := d.whole(t.b)
						exp = append(exp, e...)
					}
					r.Count("framing_cases", 1)
					if !evsEq(whole, exp) {
						for changed := true; changed; {
							changed = false
							for k := 0; k < len(ts) && len(ts) > 1; k++ {
								cand := append(append([]token{}, ts[:k]...), ts[k+1:]...)
								w2, _, _ := d.whole(joinTokens(cand))
								var e2 []NEv
								for _, t := range cand {
									e, _, _ := d.whole(t.b)
									e2 = append(e2, e...)
								}
								if !evsEq(w2, e2) {
									ts, whole, exp, changed = cand, w2, e2, true
									k--
								}
							}
						}
						var cl []string
						for _, t := range ts {
							cl = append(cl, t.class)
						}
						r.Violate("framing:"+strings.Join(cl, ","), fmt.Sprintf("%s/%s: tokens %q decode together as %s but one by one as %s", ti.Name, cs, tokBytes(ts), evsStr(whole), evsStr(exp)), map[string]any{"entry": ti.Name, "charset": cs, "tokens": tokBytes(ts)})
					}
				}
				if ei == 0 && i < 3 && cs == "UTF-8" {
					r.Sample(6, map[string]any{"kind": "tokens", "entry": ti.Name, "tokens": tokBytes(ts)})
				}
			}
			// a long clipboard reply (OSC 52 with several kilobytes of payload): one event however
			// it is cut, in particular in the 128-byte reads of the real reader
			if strings.Contains(ti.Name, "xterm") || ti.XTermLike {
				rg := r.Rand("clip", ti.Name, cs)
				for _, size := range []int{300, 3000, 3300, 6000} {
					raw := make([]byte, size)
					for k := range raw {
						raw[k] = byte('a' + rg.IntN(26))
					}
					for _, term := range []string{"\x07", "\x1b\\"} {
						rep := []byte("x\x1b]52;c;" + base64.StdEncoding.EncodeToString(raw) + term + "y")
						whole, left, pan := d.whole(rep)
						nclip := 0
						for _, e := range whole {
							if e.T == "clip" {
								nclip++
							}
						}
						if pan != nil || left != 0 || nclip != 1 || len(whole) != 3 {
							// the entry does not decode clipboard replies (no OSC 52 support): nothing to compare
							continue
						}
						var p128 [][]byte
						for o := 0; o < len(rep); o += 128 {
							p128 = append(p128, rep[o:min(o+128, len(rep))])
						}
						parts := [][][]byte{p128}
						for k := 0; k < 4; k++ {
							var cuts []int
							for c := 1 + rg.IntN(200); c < len(rep); c += 1 + rg.IntN(900) {
								cuts = append(cuts, c)
							}
							parts = append(parts, partitionAt(rep, cuts))
						}
						for _, ps := range parts {
							got, left, pan := d.chunks(ps)
							r.Count("partitions", 1)
							if pan != nil || left != 0 || !evsEq(got, whole) {
								r.Violate("chunking:long-clipboard-reply", fmt.Sprintf("%s/%s: a clipboard reply with %d bytes of data decodes to 3 events in one read, but to %d events (%s...) when read in %d pieces (first piece %d bytes; leftover %d, panic %v)", ti.Name, cs, size, len(got), short(evsStr(got), 200), len(ps), len(ps[0]), left, pan), map[string]any{"entry": ti.Name, "size": size})
								break
							}
						}
						r.Case(fmt.Sprintf("clip|%s|%s|%d|%q", ti.Name, cs, size, term))
					}
				}
			}
			// random bytes
			const al = "\x1b\x1b\x1b\x1b[[[<<;;Mm0123456789-]52c=\x07\\~OPI\x9b\xff\xc3\xa9\xe4\xb8\x96abc \x00\x7f\x01\r"
			nb := perEntry
			if cs != "UTF-8" {
				nb = perEntry / 6
			}
			for i := 0; i < nb; i++ {
				rg := r.Rand("rnd", ti.Name, cs, i)
				d.modes([]tcell.MouseFlags{0, tcell.MouseMotionEvents}[i%2], i%4 >= 2, i%8 >= 4)
				n := 1 + rg.IntN(14)
				b := make([]byte, n)
				for k := range b {
					b[k] = al[rg.IntN(len(al))]
				}
				r.Case(fmt.Sprintf("rnd|%s|%s|%x", ti.Name, cs, b))
				if v := chunkViolation(r, d, b, rg, nrandPart); v != "" {
					// shrink by dropping bytes
					for changed := true; changed; {
						changed = false
						for k := 0; k < len(b) && len(b) > 1; k++ {
							cand := append(append([]byte{}, b[:k]...), b[k+1:]...)
							if v2 := chunkViolation(r, d, cand, rg, nrandPart); v2 != "" {
								b, v, changed = cand, v2, true
								k--
							}
						}
					}
					r.Violate("chunking:random-bytes:"+byteShape(b), fmt.Sprintf("%s/%s: %s", ti.Name, cs, v), map[string]any{"entry": ti.Name, "charset": cs, "input": fmt.Sprintf("%q", b)})
				}
				if ei == 1 && i < 2 && cs == "UTF-8" {
					r.Sample(6, map[string]any{"kind": "random bytes", "entry": ti.Name, "input": fmt.Sprintf("%q", b)})
				}
			}
		}
	})
	c02pipeline(r)
	// a sequence split across two reads while the main loop is held up past the escape timer
	c05stall(r)
	c02fullRead(r)
	// sequences that arrive slower than the escape timeout as a whole but faster per byte
	trickle(r, Pristine("xterm-256color"), [][]byte{[]byte("\x1b[1;5A"), []byte("\x1b[<0;10;10M"), []byte("\x1b[15;2~"), []byte("\x1b[200~"), []byte("\x1b]52;c;aGk=\x07")}[:r.Pick(3, 5)], "sequence")
	trickle(r, Pristine("vt220"), [][]byte{[]byte("\x1b[17~"), []byte("\x1b[28~")}[:r.Pick(1, 2)], "sequence")
}

// c02fullRead: "consumes every byte": input that ends in a lone ESC is completed by the escape
// timeout without any further input, whatever the sizes of the reads that brought it (the real
// reader takes at most 128 bytes at a time; a read that fills its buffer is a boundary case).
func c02fullRead(r *core.Run) {
	ti := Pristine("xterm-256color")
	sizes := []int{1, 2, 64, 127, 128, 129, 255, 256, 257, 384, -128, -256}
	for rep := 0; rep < r.Pick(1, 10); rep++ {
		for _, n := range sizes {
			ls, err := startScreen(ti, 40, 10, nil)
			if err != nil {
				r.Inconclusive(err.Error())
				return
			}
			evc := make(chan NEv, 1024)
			go func() {
				for {
					ev := ls.s.PollEvent()
					if ev == nil {
						close(evc)
						return
					}
					if _, isResize := ev.(*tcell.EventResize); !isResize {
						evc <- normEv(ev)
					}
				}
			}()
			esc := n > 0
			if n < 0 {
				n = -n // plain text that fills the reader's buffer exactly, nothing pending behind it
			}
			in := bytes.Repeat([]byte("a"), n)
			if esc {
				in[n-1] = 0x1b
			}
			for o := 0; o < len(in); o += 128 {
				ls.tty.Feed(in[o:min(o+128, len(in))])
			}
			var got []NEv
			deadline := time.After(15 * time.Second)
			timedOut := false
			for len(got) < n && !timedOut {
				select {
				case e, ok := <-evc:
					if !ok {
						timedOut = true
						break
					}
					got = append(got, e)
				case <-deadline:
					timedOut = true
				}
			}
			verdict := ""
			if timedOut {
				if lost, w := ls.sentinelLost(); lost {
					verdict = fmt.Sprintf("%d of %d events were delivered and the library is idle (%s): input that has been read is never delivered (an ESC at the end never expires)", len(got), n, w)
				} else {
					r.Inconclusive(fmt.Sprintf("full-read scenario n=%d: watchdog", n))
				}
			} else {
				for i, e := range got {
					if i < n-1 && !(e.T == "key" && e.Key == tcell.KeyRune && e.Rune == 'a' && e.Mod == 0) {
						verdict = fmt.Sprintf("event %d is %s, expected the rune a", i, e)
						break
					}
					if i == n-1 && in[len(in)-1] == 0x1b && !(e.T == "key" && e.Key == tcell.KeyEsc && e.Mod == 0) {
						verdict = fmt.Sprintf("last event is %s, expected Esc", e)
					}
				}
			}
			ls.fini()
			r.Case(fmt.Sprintf("fullread|%d|%d", n, rep))
			r.Count("full_read_rounds", 1)
			if verdict != "" {
				r.Violate("timer:trailing-esc-after-reads", fmt.Sprintf("xterm-256color: %d bytes (%d x 'a' then ESC) arriving in reads of at most 128 bytes, then silence: %s", n, n-1, verdict), nil)
				return
			}
		}
	}
}

func tokBytes(ts []token) []string {
	var out []string
	for _, t := range ts {
		out = append(out, fmt.Sprintf("%s:%q", t.class, t.b))
	}
	return out
}

// byteShape abstracts a byte string to its structural characters.
func byteShape(b []byte) string {
	var sb strings.Builder
	for _, c := range b {
		switch {
		case c == 0x1b:
			sb.WriteString("E")
		case c >= '0' && c <= '9':
			sb.WriteString("9")
		case c >= 0x80:
			sb.WriteString("H")
		case c < 0x20 || c == 0x7f:
			sb.WriteString("C")
		case (c >= 'a' && c <= 'z'):
			sb.WriteString("a")
		default:
			sb.WriteByte(c)
		}
	}
	return sb.String()
}

// c02pipeline drives a sample of state-free token strings through the real
// inputLoop -> keychan -> mainLoop -> eventQ -> PollEvent path and compares
// with the synchronous hook, chunk boundaries on token boundaries (so that
// the 50 ms timer cannot matter).
func c02pipeline(r *core.Run) {
	names := []string{"xterm-256color", "linux", "vt100", "rxvt-unicode", "screen", "wy60"}
	per := r.Pick(15, 200)
	for _, name := range names {
		ti := Pristine(name)
		if ti == nil {
			continue
		}
		g := newTokGen(ti, "UTF-8")
		ps, err := startScreen(ti, 100, 40, nil)
		if err != nil {
			r.Inconclusive("pipeline: " + err.Error())
			continue
		}
		for i := 0; i < per; i++ {
			rg := r.Rand("pipe", name, i)
			var ts []token
			for len(ts) < 1+rg.IntN(6) {
				// 0x1d (Ctrl-]) is the sentinel of the pipeline and cannot be content
				if t, ok := g.gen(rg); ok && !bytes.Contains(t.b, []byte{0x1d}) {
					ts = append(ts, t)
				}
			}
			var chunks [][]byte
			for _, t := range ts {
				if len(chunks) > 0 && rg.IntN(2) == 0 {
					chunks[len(chunks)-1] = append(chunks[len(chunks)-1], t.b...)
				} else {
					chunks = append(chunks, append([]byte(nil), t.b...))
				}
			}
			// only strings whose every chunk boundary leaves nothing buffered
			p, _ := tcellNewParser(ti, "UTF-8", 100, 40)
			var want []NEv
			ok := true
			for _, c := range chunks {
				e, left := p.Feed(c, false)
				want = append(want, normEvs(e)...)
				if left != 0 {
					ok = false
				}
			}
			if !ok {
				continue
			}
			wait := ps.startPoll(0x1d)
			pollDone := make(chan struct{})
			go func() { wait(); close(pollDone) }()
			fedAll := true
			for _, c := range chunks {
				for len(c) > 0 && fedAll { // the reader takes at most 128 bytes at a time
					n := len(c)
					if n > 128 {
						n = 128
					}
					fedAll = ps.feedOrDone(c[:n], pollDone)
					c = c[n:]
				}
			}
			if fedAll {
				fedAll = ps.feedOrDone([]byte{0x1d}, pollDone)
			}
			got, okp := wait()
			if !fedAll && okp {
				r.Violate("pipeline-vs-hook", fmt.Sprintf("%s: tokens %q: the sentinel fed last was delivered before all input had been read (events so far %s)", name, tokBytes(ts), evsStr(got)), nil)
				break
			}
			if !okp {
				ps.judgeSentinel(r, okp, fmt.Sprintf("pipeline %s tokens %q", name, tokBytes(ts)))
				break
			}
			r.Count("pipeline_strings", 1)
			if !evsEq(got, want) {
				r.Violate("pipeline-vs-hook", fmt.Sprintf("%s: tokens %q: PollEvent delivered %s, synchronous parse gives %s", name, tokBytes(ts), evsStr(got), evsStr(want)), nil)
			}
		}
		ps.fini()
	}
}
