package props

import (
	"bytes"
	"fmt"
	"os"
	"os/exec"
	"path/filepath"
	"sort"
	"strconv"
	"strings"
	"sync"
	"time"

	"github.com/gdamore/tcell/v2/terminfo"

	"verif/core"
	"verif/tiref"
)

func init() { register("C07", C07) }

// hard-coded parameterized strings of tscreen.go (kept here as data; the
// database ones are enumerated through the verif hook).
var hardCoded = []struct {
	name, s string
	kind    string
}{
	{"osc8", "\x1b]8;%p2%s;%p1%s\x1b\\", "ss"},
	{"winsize", "\x1b[8;%p1%p2%d;%dt", "wh"},
	{"ulcolor", "\x1b[58:5:%p1%dm", "idx"},
	{"ulrgb", "\x1b[58:2::%p1%d:%p2%d:%p3%dm", "rgb"},
	{"title", "\x1b[>2t\x1b]2;%p1%s\x1b\\", "s"},
	{"clipboard", "\x1b]52;c;%p1%s\x1b\\", "s"},
	{"cursorrgb", "\x1b]12;#%p1%02x%p2%02x%p3%02x\007", "rgb"},
}

func toIface(ps []tiref.Val) []interface{} {
	out := make([]interface{}, len(ps))
	for i, p := range ps {
		if p.IsStr {
			out[i] = p.S
		} else {
			out[i] = p.N
		}
	}
	return out
}

var tparmTI = &terminfo.Terminfo{}

// safeTParm calls tcell's TParm under recover.
func safeTParm(s string, ps []interface{}) (out string, pan any) {
	defer func() {
		if e := recover(); e != nil {
			pan = e
		}
	}()
	return tparmTI.TParm(s, ps...), nil
}

// safeTParmOn evaluates on another Terminfo value: static variables belong to the process,
// not to the description through which TParm happens to be entered.
func safeTParmOn(ti *terminfo.Terminfo, s string, ps []interface{}) (out string, pan any) {
	defer func() {
		if e := recover(); e != nil {
			pan = e
		}
	}()
	return ti.TParm(s, ps...), nil
}

var tparmOthers = []*terminfo.Terminfo{{Name: "other-1"}, {Name: "other-2"}}

func valsStr(ps []tiref.Val) string {
	var ss []string
	for _, p := range ps {
		ss = append(ss, p.String())
	}
	return strings.Join(ss, ",")
}

func C07(r *core.Run) {
	r.Rule = "differential: tcell Terminfo.TParm vs an independent terminfo(5) stack machine (tiref). (a) every parameterized string field of every database entry (enumerated through the verif hook) and tcell's hard-coded strings over their parameter domain (distinct by construction); (b) seeded well-formed, well-typed programs from the terminfo(5) grammar (depth<=4; non-trivial = strict-mode clean in tiref; distinct = distinct (program,params)); (c) random byte strings and truncations for robustness (no panic, returns). A sample of integer-only programs is cross-checked against ncurses tparm; programs on which tiref and ncurses disagree are excluded, not used to accuse tcell."
	r.Assumptions = []string{"terminfo(5) as the semantics; printf conversions as in C", "programs with %x/%o of negative values, %c outside 0..255, or any strict-mode fault in the reference are excluded from comparison"}

	// ---- (a) database ---------------------------------------------------
	type dbstr struct {
		field, s string
		entries  []string
	}
	seen := map[string]*dbstr{}
	for _, ti := range AllEntries() {
		for f, v := range StringFields(ti) {
			if !strings.Contains(v, "%") {
				continue
			}
			k := f + "\x00" + v
			if seen[k] == nil {
				seen[k] = &dbstr{field: f, s: v}
			}
			seen[k].entries = append(seen[k].entries, ti.Name)
		}
	}
	var dbs []*dbstr
	for _, v := range seen {
		dbs = append(dbs, v)
	}
	sort.Slice(dbs, func(i, j int) bool { return dbs[i].field+dbs[i].s < dbs[j].field+dbs[j].s })
	for _, h := range hardCoded {
		dbs = append(dbs, &dbstr{field: "hard:" + h.name + ":" + h.kind, s: h.s})
	}
	r.Set("db_parameterized_strings", len(dbs))

	cmp := func(origin, prog string, ps []tiref.Val, st *tiref.Statics) bool {
		ref := tiref.Eval(prog, ps, st)
		got, pan := safeTParm(prog, toIface(ps))
		if pan != nil {
			r.Violate("panic:"+origin, fmt.Sprintf("TParm(%q, %s) panicked: %v", prog, valsStr(ps), pan), map[string]any{"prog": prog, "params": valsStr(ps)})
			return false
		}
		if len(ref.Faults) > 0 {
			r.Count("excluded_ref_faults", 1)
			return true
		}
		if got != string(ref.Out) {
			r.Violate("db:"+origin, fmt.Sprintf("TParm(%q, %s) = %q, terminfo(5) gives %q", prog, valsStr(ps), got, ref.Out), map[string]any{"prog": prog, "params": valsStr(ps)})
			return false
		}
		return true
	}

	maxrc := r.Pick(300, 1024)
	for _, d := range dbs {
		d := d
		kind := d.field
		if strings.HasPrefix(kind, "hard:") {
			kind = kind[strings.LastIndex(kind, ":")+1:]
		}
		origin := d.field
		switch kind {
		case "SetCursor", "wh":
			core.Parallel(maxrc, func(row int) {
				for col := 0; col < maxrc; col++ {
					if !cmp(origin, d.s, []tiref.Val{tiref.Int(row), tiref.Int(col)}, nil) {
						return
					}
				}
			})
			r.CaseN(int64(maxrc)*int64(maxrc), int64(maxrc)*int64(maxrc))
		case "SetFg", "SetBg", "idx", "UnderlineColor":
			for i := 0; i < 256; i++ {
				cmp(origin, d.s, []tiref.Val{tiref.Int(i)}, nil)
			}
			r.CaseN(256, 256)
		case "SetFgBg":
			for i := 0; i < 256; i++ {
				for j := 0; j < 256; j++ {
					cmp(origin, d.s, []tiref.Val{tiref.Int(i), tiref.Int(j)}, nil)
				}
			}
			r.CaseN(65536, 65536)
		case "SetFgRGB", "SetBgRGB", "rgb", "UnderlineColorRGB", "CursorColorRGB":
			if r.Quick() {
				lat := []int{0, 1, 7, 8, 15, 16, 17, 99, 100, 127, 128, 200, 254, 255}
				for _, a := range lat {
					for _, b := range lat {
						for _, c := range lat {
							cmp(origin, d.s, []tiref.Val{tiref.Int(a), tiref.Int(b), tiref.Int(c)}, nil)
						}
					}
				}
				n := int64(len(lat) * len(lat) * len(lat))
				r.CaseN(n, n)
			} else {
				core.Parallel(256, func(a int) {
					for b := 0; b < 256; b++ {
						for c := 0; c < 256; c++ {
							if !cmp(origin, d.s, []tiref.Val{tiref.Int(a), tiref.Int(b), tiref.Int(c)}, nil) {
								return
							}
						}
					}
				})
				r.CaseN(1<<24, 1<<24)
			}
		case "SetFgBgRGB":
			lat := []int{0, 1, 7, 8, 15, 16, 127, 128, 254, 255}
			core.Parallel(len(lat)*len(lat), func(ab int) {
				a, b := lat[ab/len(lat)], lat[ab%len(lat)]
				for _, c := range lat {
					for _, d2 := range lat {
						for _, e := range lat {
							for _, f := range lat {
								cmp(origin, d.s, []tiref.Val{tiref.Int(a), tiref.Int(b), tiref.Int(c), tiref.Int(d2), tiref.Int(e), tiref.Int(f)}, nil)
							}
						}
					}
				}
			})
			r.CaseN(1000000, 1000000)
			rg := r.Rand("rgb6")
			n := r.Pick(20000, 2000000)
			for i := 0; i < n; i++ {
				ps := make([]tiref.Val, 6)
				for k := range ps {
					ps[k] = tiref.Int(rg.IntN(256))
				}
				cmp(origin, d.s, ps, nil)
			}
			r.CaseN(int64(n), int64(n))
		case "ss", "s", "EnterUrl", "SetWindowTitle":
			rg := r.Rand("str", d.s)
			n := r.Pick(2000, 100000)
			for i := 0; i < n; i++ {
				ps := []tiref.Val{tiref.Str(randPrintable(rg)), tiref.Str(randPrintable(rg))}
				cmp(origin, d.s, ps, nil)
			}
			r.CaseN(int64(n), int64(n))
		default:
			// a parameterized field this check has no domain for: evaluate
			// with small integer parameters and report the field name
			r.Count("fields_with_generic_domain", 1)
			for a := 0; a < 20; a++ {
				for b := 0; b < 20; b++ {
					cmp(origin, d.s, []tiref.Val{tiref.Int(a), tiref.Int(b), tiref.Int(a + b), tiref.Int(1), tiref.Int(2), tiref.Int(3), tiref.Int(4), tiref.Int(5), tiref.Int(6)}, nil)
				}
			}
			r.CaseN(400, 400)
		}
		r.Sample(4, map[string]any{"kind": "database", "field": d.field, "string": d.s, "entries": len(d.entries)})
	}

	// ---- (b) generated programs -------------------------------------------
	nprog := r.Pick(150000, 6000000)
	var mu sync.Mutex
	failTags := map[string]bool{}
	core.Parallel(16, func(w int) {
		for i := w; i < nprog; i += 16 {
			rg := r.Rand("gen", i)
			p := tiref.Gen(rg, tiref.GenOpts{})
			prog := p.String()
			ref := tiref.Eval(prog, p.Params, nil)
			if len(ref.Faults) > 0 {
				r.Case("")
				r.Count("excluded_ref_faults", 1)
				continue
			}
			r.Case(prog + "|" + valsStr(p.Params))
			got, pan := safeTParm(prog, toIface(p.Params))
			if pan == nil && got == string(ref.Out) {
				if i < 3 {
					r.Sample(8, map[string]any{"kind": "generated", "prog": prog, "params": valsStr(p.Params), "out": string(ref.Out)})
				}
				continue
			}
			// shrink: drop top-level items while the disagreement persists
			items := p.Items
			disagree := func(its []tiref.Item) bool {
				q := tiref.Program{Items: its, Params: p.Params}.String()
				rf := tiref.Eval(q, p.Params, nil)
				if len(rf.Faults) > 0 {
					return false
				}
				g, pn := safeTParm(q, toIface(p.Params))
				return pn != nil || g != string(rf.Out)
			}
			for changed := true; changed; {
				changed = false
				for k := 0; k < len(items); k++ {
					cand := append(append([]tiref.Item{}, items[:k]...), items[k+1:]...)
					if len(cand) > 0 && disagree(cand) {
						items, changed = cand, true
						k--
					}
				}
			}
			sp := tiref.Program{Items: items, Params: p.Params}
			sig := "gen:" + strings.Join(sp.Tags(), "+")
			mu.Lock()
			first := !failTags[sig]
			failTags[sig] = true
			mu.Unlock()
			if first {
				q := sp.String()
				rf := tiref.Eval(q, p.Params, nil)
				g, pn := safeTParm(q, toIface(p.Params))
				r.Violate(sig, fmt.Sprintf("TParm(%q, %s) = %q (panic=%v), terminfo(5) gives %q", q, valsStr(p.Params), g, pn, rf.Out), map[string]any{"prog": q, "params": valsStr(p.Params), "case": i})
			} else {
				r.Violate(sig, "", nil)
			}
		}
	})

	// static variables across calls, explicitly: stored in one call, read in a later one, through the
	// same and through different Terminfo values; a counter kept in a static variable
	for v := 'A'; v <= 'Z'; v++ {
		for trial, tis := range [][2]*terminfo.Terminfo{{tparmTI, tparmTI}, {tparmOthers[0], tparmOthers[1]}, {tparmTI, tparmOthers[0]}} {
			val := 1000 + int(v)*3 + trial
			_, p1 := safeTParmOn(tis[0], fmt.Sprintf("%%p1%%P%c", v), []interface{}{val})
			_, _ = safeTParmOn(tis[1], "%p1%d", []interface{}{7}) // an unrelated call in between
			got, p2 := safeTParmOn(tis[1], fmt.Sprintf("%%g%c%%d", v), nil)
			r.CaseN(1, 1)
			if p1 != nil || p2 != nil || got != fmt.Sprint(val) {
				r.Violate("static-across-calls", fmt.Sprintf("%%P%c stored %d in one TParm call (description %q); %%g%c in a later call (description %q) gives %q (panics %v %v)", v, val, tis[0].Name, v, tis[1].Name, got, p1, p2), nil)
				break
			}
		}
	}
	_, _ = safeTParm("%{0}%PR", nil)
	for k := 1; k <= 6; k++ {
		got, pan := safeTParmOn([]*terminfo.Terminfo{tparmTI, tparmOthers[0], tparmOthers[1]}[k%3], "%gR%{1}%+%PR%gR%d", nil)
		r.CaseN(1, 1)
		if pan != nil || got != fmt.Sprint(k) {
			r.Violate("static-across-calls:counter", fmt.Sprintf("a counter kept in %%PR and incremented once per call, calls alternating over three descriptions: call %d gives %q (panic %v)", k, got, pan), nil)
			break
		}
	}
	// static variables: sequences of programs sharing %P[A-Z], single-threaded
	// because tcell keeps them in a package-level array
	nseq := r.Pick(5000, 200000)
	for i := 0; i < nseq; i++ {
		rg := r.Rand("static", i)
		var st tiref.Statics
		// both sides start from "all zero": write 0 to the four variables used
		for v := 'A'; v <= 'D'; v++ {
			_, _ = safeTParm(fmt.Sprintf("%%{0}%%P%c", v), nil)
		}
		ok := true
		var trace []string
		for k := 0; k < 3 && ok; k++ {
			p := tiref.Gen(rg, tiref.GenOpts{Statics: true})
			prog := p.String()
			ref := tiref.Eval(prog, p.Params, &st)
			got, pan := "", any(nil)
			if i%2 == 1 {
				// every other sequence hops between Terminfo values from call to call
				got, pan = safeTParmOn(tparmOthers[k%2], prog, toIface(p.Params))
			} else {
				got, pan = safeTParm(prog, toIface(p.Params))
			}
			trace = append(trace, fmt.Sprintf("%q(%s)", prog, valsStr(p.Params)))
			if len(ref.Faults) > 0 {
				r.Count("excluded_ref_faults", 1)
				ok = false
				break
			}
			if pan != nil || got != string(ref.Out) {
				r.Violate("static-sequence:"+strings.Join(p.Tags(), "+"), fmt.Sprintf("call %d of sequence %v: TParm = %q (panic=%v), terminfo(5) gives %q", k, trace, got, pan, ref.Out), map[string]any{"sequence": trace})
				ok = false
			}
		}
		if ok {
			r.Case("static|" + strings.Join(trace, ";"))
		} else {
			r.Case("")
		}
	}

	// ---- (c) robustness ---------------------------------------------------
	nrob := r.Pick(100000, 3000000)
	done := make(chan struct{})
	var cur sync.Map
	go func() {
		core.Parallel(16, func(w int) {
			for i := w; i < nrob; i += 16 {
				rg := r.Rand("rob", i)
				var prog string
				if rg.IntN(2) == 0 {
					p := tiref.Gen(rg, tiref.GenOpts{Statics: true}).String()
					if len(p) > 0 {
						prog = p[:rg.IntN(len(p)+1)]
					}
				} else {
					const al = "%%%%%%pPg123{}'l+-*/m&|^~!=<>AO?te;idsxXoc:# .0123456789ab\x00\xff$<>"
					b := make([]byte, rg.IntN(24))
					for k := range b {
						b[k] = al[rg.IntN(len(al))]
					}
					prog = string(b)
				}
				ps := []interface{}{rg.IntN(300), "s" + strconv.Itoa(rg.IntN(9)), rg.IntN(300) - 100}
				cur.Store(w, prog)
				_, pan := safeTParm(prog, ps)
				if pan != nil {
					r.Violate("panic:robustness", fmt.Sprintf("TParm(%q, %v) panicked: %v", prog, ps, pan), map[string]any{"prog": prog})
				}
				r.Count("robustness_inputs", 1)
			}
		})
		close(done)
	}()
	select {
	case <-done:
	case <-time.After(10 * time.Minute):
		var stuck []string
		cur.Range(func(k, v any) bool { stuck = append(stuck, fmt.Sprintf("%q", v)); return true })
		r.Violate("hang:robustness", "TParm did not return within 10 minutes on one of: "+strings.Join(stuck, " "), stuck)
	}
	r.CaseN(int64(nrob), 0)

	// ---- ncurses cross-check of the reference ------------------------------
	ncursesCross(r)
}

func randPrintable(rg interface{ IntN(int) int }) string {
	const al = "abcdefghijklmnopqrstuvwxyzABCDEFGHIJKLMNOPQRSTUVWXYZ0123456789:/.-_#?&=+~ "
	n := rg.IntN(30)
	b := make([]byte, n)
	for i := range b {
		b[i] = al[rg.IntN(len(al))]
	}
	return string(b)
}

const ncScript = `
import sys, curses
curses.setupterm("xterm")
for line in open(sys.argv[1], "rb"):
    line = line.rstrip(b"\n")
    parts = line.split(b"\t")
    prog = bytes.fromhex(parts[0].decode())
    args = [int(x) for x in parts[1].split(b",") if x]
    try:
        out = curses.tparm(prog, *args)
        sys.stdout.write(out.hex() + "\n")
    except Exception as e:
        sys.stdout.write("ERR\n")
`

// ncursesCross evaluates integer-only generated programs with ncurses' tparm
// (through python's curses module, one subprocess per batch) and compares
// with tiref.  Disagreements are counted as "disputed semantics".
func ncursesCross(r *core.Run) {
	dir := filepath.Join(core.VerifDir(), "bin", "tmp")
	_ = os.MkdirAll(dir, 0o755)
	script := filepath.Join(dir, "nc.py")
	if err := os.WriteFile(script, []byte(ncScript), 0o644); err != nil {
		r.Set("ncurses_crosscheck", "unavailable: "+err.Error())
		return
	}
	nb := r.Pick(4, 40)
	agree, dispute, total := 0, 0, 0
	var disputes []string
	for b := 0; b < nb; b++ {
		var progs []tiref.Program
		var buf bytes.Buffer
		for i := 0; len(progs) < 250 && i < 5000; i++ {
			rg := r.Rand("nc", b, i)
			p := tiref.Gen(rg, tiref.GenOpts{NcursesOK: true})
			s := p.String()
			// keep out what the design lists as ncurses quirks / hazards
			if strings.Contains(s, "%c") || strings.Contains(s, "%s") || strings.Contains(s, "%l") || strings.Contains(s, "%:+") || strings.Contains(s, "%i") {
				continue
			}
			ref := tiref.Eval(s, p.Params, nil)
			if len(ref.Faults) > 0 {
				continue
			}
			ok := true
			for _, v := range p.Params {
				if v.IsStr {
					ok = false
				}
			}
			if !ok {
				continue
			}
			// int32 range guard: skip programs with multiplication
			if strings.Contains(s, "%*") {
				continue
			}
			progs = append(progs, p)
			var as []string
			for _, v := range p.Params {
				as = append(as, strconv.Itoa(v.N))
			}
			fmt.Fprintf(&buf, "%x\t%s\n", s, strings.Join(as, ","))
		}
		in := filepath.Join(dir, fmt.Sprintf("nc-%d-%d.txt", os.Getpid(), b))
		_ = os.WriteFile(in, buf.Bytes(), 0o644)
		cmd := exec.Command("python3", script, in)
		cmd.Env = append(os.Environ(), "TERM=xterm")
		out, err := cmd.Output()
		_ = os.Remove(in)
		lines := strings.Split(strings.TrimSuffix(string(out), "\n"), "\n")
		if err != nil || len(lines) != len(progs) {
			r.Count("ncurses_batches_failed", 1)
			msg := fmt.Sprintf("batch %d: err=%v lines=%d progs=%d", b, err, len(lines), len(progs))
			if ee, ok := err.(*exec.ExitError); ok {
				msg += " stderr=" + short(string(ee.Stderr), 300)
			}
			if len(lines) < len(progs) {
				msg += fmt.Sprintf(" next program: %q(%s)", progs[len(lines)].String(), valsStr(progs[len(lines)].Params))
			}
			r.Set(fmt.Sprintf("ncurses_batch_error_%d", b), msg)
			continue
		}
		for i, p := range progs {
			total++
			ref := tiref.Eval(p.String(), p.Params, nil)
			if lines[i] == fmt.Sprintf("%x", ref.Out) {
				agree++
			} else {
				dispute++
				if len(disputes) < 5 {
					disputes = append(disputes, fmt.Sprintf("%q(%s): tiref=%q ncurses=%s", p.String(), valsStr(p.Params), ref.Out, lines[i]))
				}
			}
		}
	}
	r.Set("ncurses_crosscheck", map[string]any{"programs": total, "agree": agree, "disputed": dispute, "disputed_samples": disputes})
}
