package props

import (
	"bufio"
	"bytes"
	"encoding/json"
	"errors"
	"fmt"
	"math/rand/v2"
	"os"
	"os/exec"
	"runtime"
	"strings"
	"sync"
	"sync/atomic"
	"time"

	"github.com/gdamore/tcell/v2"

	"verif/census"
	"verif/core"
	"verif/faketty"
)

func init() { register("C06", C06) }

// c06scn describes one shutdown scenario.
type c06scn struct {
	Idx       int    `json:"idx"`
	Kind      string `json:"kind"`    // fini suspend cycle
	EvFill    int    `json:"evfill"`  // events sitting in the event queue
	KeyFill   int    `json:"keyfill"` // -1: main loop idle; >=0: main loop parked on a full event queue with this many chunks queued
	Parked    bool   `json:"parked"`  // reader parked on the send after a full chunk queue
	Reader    string `json:"reader"`  // read gate readerr
	Conc      string `json:"conc"`    // none poller poster show resize
	Sched     int64  `json:"sched"`   // 0: no perturbation; else seed of the schedule controller
	DrainNil  bool   `json:"drainnil"`
	PreResume bool   `json:"preresume,omitempty"` // a redundant Resume() on the running screen first
	Stall     bool   `json:"stall,omitempty"`     // main loop held up > 50 ms by a slow redraw with a partial sequence buffered and more input queued
}

func (s c06scn) String() string {
	b, _ := json.Marshal(s)
	return string(b)
}

type c06res struct {
	Idx      int    `json:"idx"`
	Verdict  string `json:"verdict"` // held violated inconclusive
	Sig      string `json:"sig,omitempty"`
	What     string `json:"what,omitempty"`
	SchedSig string `json:"schedsig,omitempty"`
	Points   int    `json:"points"`
	Abort    bool   `json:"abort,omitempty"` // the worker must be replaced (stuck goroutines left behind)
}

// ---------------------------------------------------------------------------
// schedule controller

type schedCtl struct {
	mu      sync.Mutex
	rg      *rand.Rand
	trace   []string
	gate    map[string]chan struct{} // point -> gate (closed to release)
	reached map[string]chan struct{}
	watch   map[string]chan struct{} // closed when the point is first hit (does not hold the goroutine)
	draws   int
	limit   int
	live    string
	hits    int
}

func newSched(seed int64) *schedCtl {
	c := &schedCtl{gate: map[string]chan struct{}{}, reached: map[string]chan struct{}{}, watch: map[string]chan struct{}{}}
	if seed != 0 {
		c.rg = rand.New(rand.NewPCG(uint64(seed), 0x5eed))
	}
	return c
}

func (c *schedCtl) setGate(point string) (reached <-chan struct{}, release func()) {
	g, rc := make(chan struct{}), make(chan struct{})
	c.mu.Lock()
	c.gate[point], c.reached[point] = g, rc
	c.mu.Unlock()
	var once sync.Once
	return rc, func() { once.Do(func() { close(g) }) }
}

// onReach returns a channel closed when the point is next hit.
func (c *schedCtl) onReach(point string) <-chan struct{} {
	ch := make(chan struct{})
	c.mu.Lock()
	c.watch[point] = ch
	c.mu.Unlock()
	return ch
}

func (c *schedCtl) point(p string) {
	c.mu.Lock()
	c.hits++
	if p == "draw.begin" {
		c.draws = 0
		c.mu.Unlock()
		return
	}
	if p == "draw.cell" {
		c.draws++
		if c.limit > 0 && c.draws > c.limit && c.live == "" {
			c.live = fmt.Sprintf("draw visited %d cells in one pass (bound %d)", c.draws, c.limit)
			c.mu.Unlock()
			runtime.Goexit() // stop the spinning goroutine (its deferred calls run)
		}
		c.mu.Unlock()
		return
	}
	if len(c.trace) < 400 && (len(c.trace) == 0 || c.trace[len(c.trace)-1] != p) {
		c.trace = append(c.trace, p)
	}
	if w := c.watch[p]; w != nil {
		delete(c.watch, p)
		close(w)
	}
	g, rc := c.gate[p], c.reached[p]
	if g != nil {
		delete(c.gate, p)
		delete(c.reached, p)
	}
	act, k := 0, 0
	if c.rg != nil {
		act, k = c.rg.IntN(6), 1+c.rg.IntN(4)
	}
	c.mu.Unlock()
	if g != nil {
		close(rc)
		<-g
		return
	}
	// perturb only outside the screen lock (the points below are reached with it held)
	locked := p == "resize.send" || p == "disengage.closed" || p == "disengage.drained"
	switch {
	case act == 1 || act == 2:
		for i := 0; i < k; i++ {
			runtime.Gosched()
		}
	case act == 3 && !locked:
		time.Sleep(time.Duration(50+k*300) * time.Microsecond)
	}
}

func (c *schedCtl) sig() string {
	c.mu.Lock()
	defer c.mu.Unlock()
	return strings.Join(c.trace, ">")
}

// ---------------------------------------------------------------------------

// waitOrClassify waits for done; if it does not come, it decides structurally
// from two goroutine dumps taken a second apart whether the process is
// deadlocked.  Returns "", "deadlock:<parked set>", or "inconclusive".
var c06spinProbe func() (reads int64, pending int)

func waitOrClassify(done <-chan struct{}, sc *schedCtl) (string, string) {
	select {
	case <-done:
		return "", ""
	case <-time.After(3 * time.Second):
	}
	for try := 0; try < 8; try++ {
		d1 := census.Dump()
		var reads1 int64
		if c06spinProbe != nil {
			reads1, _ = c06spinProbe()
		}
		select {
		case <-done:
			return "", ""
		case <-time.After(time.Second):
		}
		d2 := census.Dump()
		if c06spinProbe != nil {
			// livelock witness: tens of thousands of Read calls in a second with nothing to read
			if reads2, pending := c06spinProbe(); pending == 0 && reads2-reads1 > 20000 {
				return "livelock:input-read-spin", fmt.Sprintf("the input loop called Tty.Read %d times within one second although no input is pending (a Read that returns 0, nil after Drain is retried for ever)", reads2-reads1)
			}
		}
		s1, b1 := census.Parked(d1, nil)
		s2, b2 := census.Parked(d2, nil)
		sc.mu.Lock()
		live := sc.live
		sc.mu.Unlock()
		if live != "" {
			return "livelock:draw", live
		}
		if b1 && b2 && strings.Join(s1, ",") == strings.Join(s2, ",") && len(s1) > 0 {
			return "deadlock:" + strings.Join(s1, "+"), "every tcell goroutine is parked and stays parked: " + strings.Join(s1, ", ")
		}
		select {
		case <-done:
			return "", ""
		case <-time.After(3 * time.Second):
		}
	}
	return "inconclusive", "call did not return within the watchdog but the process is not structurally idle"
}

// spinUntil yields until cond holds (watchdog: false).
func spinUntil(cond func() bool) bool {
	deadline := time.Now().Add(15 * time.Second)
	for i := 0; !cond(); i++ {
		runtime.Gosched()
		if i%1000 == 999 {
			time.Sleep(200 * time.Microsecond)
			if time.Now().After(deadline) {
				return false
			}
		}
	}
	return true
}

func c06run(sn c06scn) (res c06res) {
	if sn.Kind == "pty" {
		return c06pty(sn)
	}
	res.Idx = sn.Idx
	fail := func(sig, what string, abort bool) c06res {
		res.Verdict, res.Sig, res.What, res.Abort = "violated", sig, what, abort
		return res
	}
	incon := func(what string) c06res {
		res.Verdict, res.What, res.Abort = "inconclusive", what, true
		return res
	}
	ti := Pristine("xterm-256color")
	ti.PadChar = ""
	ft := faketty.New(20, 5)
	ft.DrainReturnsNil = sn.DrainNil
	c06spinProbe = func() (int64, int) { return ft.ReadCount(), ft.Pending() }
	defer func() { c06spinProbe = nil }()
	sc := newSched(sn.Sched)
	sc.limit = 4*40*10 + 16
	tcell.VerifSetSched(sc.point)
	defer tcell.VerifSetSched(nil)
	defer func() { res.SchedSig, res.Points = sc.sig(), sc.hits }()
	s, err := tcell.NewTerminfoScreenFromTtyTerminfo(ft, ti)
	if err != nil {
		return incon(err.Error())
	}
	ft.BeginApp() // every call below is an application call
	if err := s.Init(); err != nil {
		return incon("Init: " + err.Error())
	}
	levels := func() (int, int, int, int) {
		a, b, c, d, _ := tcell.VerifQueueLevels(s)
		return a, b, c, d
	}
	// the resize event of Init
	if !spinUntil(func() bool { return s.HasPendingEvent() }) {
		return incon("no initial resize event")
	}
	s.PollEvent()
	_, evCap, _, keyCap := levels()
	if sn.Kind == "starterr" || sn.Kind == "inwindow" {
		// EvFill only selects the variant
	} else if sn.EvFill > evCap && sn.Kind != "racefill" {
		sn.EvFill = evCap
	}
	for i := 0; i < sn.EvFill && sn.Kind != "racefill" && sn.Kind != "starterr" && sn.Kind != "inwindow"; i++ {
		if err := s.PostEvent(tcell.NewEventInterrupt(i)); err != nil {
			return incon("could not fill the event queue")
		}
	}
	feedOK := func(b []byte) bool {
		select {
		case ft.FeedC() <- b:
			return true
		case <-time.After(10 * time.Second):
			return false
		}
	}
	if sn.KeyFill >= 0 {
		if sn.KeyFill > keyCap {
			sn.KeyFill = keyCap
		}
		// park the main loop on the full event queue with one decoded event in hand
		if !feedOK([]byte("a")) {
			return incon("reader did not take input")
		}
		if !spinUntil(func() bool { _, _, k, _ := levels(); return k == 0 && atomic.LoadInt32(&ft.Reading) == 1 }) {
			return incon("main loop did not pick the chunk up")
		}
		for j := 0; j < sn.KeyFill; j++ {
			if !feedOK([]byte("b")) {
				return incon("reader did not take input")
			}
		}
		if !spinUntil(func() bool { _, _, k, _ := levels(); return k == sn.KeyFill && atomic.LoadInt32(&ft.Reading) == 1 }) {
			return incon(fmt.Sprintf("chunk queue did not reach %d", sn.KeyFill))
		}
		if sn.Parked {
			if !feedOK([]byte("c")) {
				return incon("reader did not take input")
			}
			if !spinUntil(func() bool { return atomic.LoadInt32(&ft.Reading) == 0 }) {
				return incon("reader did not park")
			}
		}
	}
	var releaseGate func()
	switch sn.Reader {
	case "gate":
		reached, rel := sc.setGate("input.send")
		releaseGate = rel
		if !feedOK([]byte("g")) {
			return incon("reader did not take input")
		}
		select {
		case <-reached:
		case <-time.After(10 * time.Second):
			rel()
			return incon("gate not reached")
		}
	case "readerr":
		ft.Locked(func() { ft.ReadErrAt = ft.ReadCount() + 2 })
		if !feedOK([]byte("e")) {
			return incon("reader did not take input")
		}
	}
	if sn.PreResume {
		// refused ("already engaged"), and must change nothing
		_ = s.Resume()
	}
	if sn.Stall {
		if !feedOK([]byte("\x1b")) {
			return incon("reader did not take input")
		}
		for i := 0; i < 300; i++ {
			runtime.Gosched()
		}
		atomic.StoreInt64(&ft.WriteDelayNS, int64(90*time.Millisecond))
		ft.SetSize(21, 6)
		ft.NotifyNow()
		spinUntil(func() bool { return atomic.LoadInt32(&ft.InDelay) > 0 })
		feedOK([]byte("[A"))
		feedOK([]byte("x"))
		atomic.StoreInt64(&ft.WriteDelayNS, 0)
		// let the main loop come back from the redraw and take its next branch
		time.Sleep(120 * time.Millisecond)
	}
	// concurrent actors
	var stop int32
	var actors sync.WaitGroup
	var actorPanic atomic.Value
	quitFwd := make(chan struct{})
	evch := make(chan tcell.Event, 4)
	startActor := func(f func()) {
		actors.Add(1)
		go func() {
			defer actors.Done()
			defer func() {
				if e := recover(); e != nil {
					actorPanic.Store(fmt.Sprintf("%v", e))
				}
			}()
			for atomic.LoadInt32(&stop) == 0 {
				f()
			}
		}()
	}
	fwdStarted := false
	switch sn.Conc {
	case "poller":
		fwdStarted = true
		go s.ChannelEvents(evch, quitFwd)
		go func() {
			for range evch {
			}
		}()
		startActor(func() {
			select {
			case ft.FeedC() <- []byte("xyz\x1b[A"):
			case <-time.After(time.Millisecond):
			}
		})
	case "flood":
		// two posters and a stream of input, nobody polling: the queue stays saturated
		for p := 0; p < 2; p++ {
			n := 0
			startActor(func() { n++; _ = s.PostEvent(tcell.NewEventInterrupt(n)) })
		}
		startActor(func() {
			select {
			case ft.FeedC() <- []byte("abc"):
			case <-time.After(time.Millisecond):
			}
		})
		// a consumer drains in bursts for a while (so that the queue keeps crossing
		// between "room" and "full"), then stops polling for good before the shutdown
		var stopDrain int32
		go func() {
			for atomic.LoadInt32(&stopDrain) == 0 {
				for s.HasPendingEvent() && atomic.LoadInt32(&stopDrain) == 0 {
					s.PollEvent()
				}
				runtime.Gosched()
			}
		}()
		time.Sleep(40 * time.Millisecond)
		atomic.StoreInt32(&stopDrain, 1)
		time.Sleep(5 * time.Millisecond)
	case "poster":
		n := 0
		startActor(func() { n++; _ = s.PostEvent(tcell.NewEventInterrupt(n)); runtime.Gosched() })
	case "show":
		n := 0
		startActor(func() { n++; s.SetContent(n%20, n%5, rune('a'+n%26), nil, tcell.StyleDefault); s.Show() })
	case "resize":
		n := 0
		startActor(func() { n++; ft.SetSize(20+n%3, 5+n%2); ft.NotifyNow(); runtime.Gosched() })
	}
	if sn.Conc != "none" {
		for i := 0; i < 200; i++ {
			runtime.Gosched()
		}
	}
	stopActors := func() {
		atomic.StoreInt32(&stop, 1)
		if fwdStarted {
			select {
			case <-quitFwd:
			default:
				close(quitFwd)
			}
		}
	}
	defer stopActors()

	shutdown := func(kind string) (string, string) {
		done := make(chan struct{})
		if releaseGate != nil {
			// the reader holds a chunk it has read but not yet queued; let it go on
			// once the shutdown has closed the stop channel and released the lock
			reached := sc.onReach("disengage.unlocked")
			rg := releaseGate
			releaseGate = nil
			go func() {
				select {
				case <-reached:
				case <-time.After(2 * time.Second):
				}
				rg()
			}()
		}
		var pan any
		go func() {
			defer close(done)
			defer func() { pan = recover() }()
			if kind == "fini" {
				ft.BeginFini()
				s.Fini()
			} else {
				_ = s.Suspend()
			}
		}()
		c, w := waitOrClassify(done, sc)
		if c == "" && pan != nil {
			return "panic:" + kind, fmt.Sprintf("%s panicked: %v", kind, pan)
		}
		return c, w
	}
	probe := func(name string, f func()) (string, string) {
		done := make(chan struct{})
		var pan any
		go func() {
			defer close(done)
			defer func() { pan = recover() }()
			f()
		}()
		c, w := waitOrClassify(done, sc)
		if c == "" && pan != nil {
			return "panic:" + name, fmt.Sprintf("%s panicked: %v", name, pan)
		}
		if c != "" && c != "inconclusive" {
			return c + "@" + name, w
		}
		return c, w
	}
	allMethods := func(after string) (string, string) {
		st := tcell.StyleDefault.Bold(true)
		calls := []struct {
			n string
			f func()
		}{
			{"Clear", func() { s.Clear() }}, {"Fill", func() { s.Fill('x', st) }}, {"SetCell", func() { s.SetCell(1, 1, st, 'y') }},
			{"GetContent", func() { s.GetContent(1, 1) }}, {"SetContent", func() { s.SetContent(2, 1, 'z', nil, st) }},
			{"SetStyle", func() { s.SetStyle(st) }}, {"ShowCursor", func() { s.ShowCursor(1, 1) }}, {"HideCursor", func() { s.HideCursor() }},
			{"SetCursorStyle", func() { s.SetCursorStyle(tcell.CursorStyleSteadyBar, tcell.ColorRed) }}, {"Size", func() { s.Size() }},
			{"EnableMouse", func() { s.EnableMouse() }}, {"DisableMouse", func() { s.DisableMouse() }}, {"EnablePaste", func() { s.EnablePaste() }},
			{"DisablePaste", func() { s.DisablePaste() }}, {"EnableFocus", func() { s.EnableFocus() }}, {"DisableFocus", func() { s.DisableFocus() }},
			{"HasMouse", func() { s.HasMouse() }}, {"Colors", func() { s.Colors() }}, {"Show", func() { s.Show() }}, {"Sync", func() { s.Sync() }},
			{"CharacterSet", func() { s.CharacterSet() }}, {"RegisterRuneFallback", func() { s.RegisterRuneFallback('Ω', "O") }},
			{"UnregisterRuneFallback", func() { s.UnregisterRuneFallback('Ω') }}, {"CanDisplay", func() { s.CanDisplay('Ω', true) }},
			{"HasKey", func() { s.HasKey(tcell.KeyF1) }}, {"Beep", func() { _ = s.Beep() }}, {"SetSize", func() { s.SetSize(30, 8) }},
			{"LockRegion", func() { s.LockRegion(0, 0, 2, 2, true); s.LockRegion(0, 0, 2, 2, false) }}, {"Tty", func() { s.Tty() }},
			{"SetTitle", func() { s.SetTitle("t") }}, {"SetClipboard", func() { s.SetClipboard([]byte("c")) }}, {"GetClipboard", func() { s.GetClipboard() }},
			{"PostEvent", func() { _ = s.PostEvent(tcell.NewEventInterrupt(nil)) }}, {"HasPendingEvent", func() { s.HasPendingEvent() }},
		}
		for _, c := range calls {
			if cat, w := probe(c.n+"-after-"+after, c.f); cat != "" {
				return cat, w
			}
		}
		return "", ""
	}

	finalFini := func() c06res {
		// drain what is queued so that a *correct* Fini cannot be held up by the harness
		if cat, w := shutdown("fini"); cat != "" {
			if cat == "inconclusive" {
				return incon("Fini: " + w)
			}
			return fail(cat, "Fini did not return: "+w+" :: "+sn.String(), true)
		}
		stopActors()
		actors.Wait()
		if p := actorPanic.Load(); p != nil {
			return fail("panic:concurrent-"+sn.Conc, fmt.Sprintf("a %s call running concurrently with the shutdown panicked: %v :: %s", sn.Conc, p, sn.String()), true)
		}
		// inert afterwards
		if lib := census.Library(census.Dump()); len(lib) > 0 {
			// give exiting goroutines a moment to unwind, then look again
			spinUntil(func() bool { return len(census.Library(census.Dump())) == 0 })
			if lib = census.Library(census.Dump()); len(lib) > 0 {
				return fail("goroutine-leak", fmt.Sprintf("after Fini %d library goroutine(s) are still alive (%s %s)", len(lib), lib[0].TcellFrame(), lib[0].State), true)
			}
		}
		ql, _, _, _ := levels()
		gotNil := false
		for i := 0; i <= ql+1 && !gotNil; i++ {
			var ev tcell.Event
			cat, w := probe("PollEvent-after-Fini", func() { ev = s.PollEvent() })
			if cat != "" {
				if cat == "inconclusive" {
					return incon(w)
				}
				return fail(cat, "PollEvent after Fini: "+w, true)
			}
			gotNil = ev == nil
		}
		if !gotNil {
			return fail("pollevent-after-fini", fmt.Sprintf("PollEvent after Fini did not yield nil within %d calls", ql+2), false)
		}
		if fwdStarted {
			closed := false
			select {
			case _, ok := <-evch:
				closed = !ok
			case <-time.After(5 * time.Second):
			}
			_ = closed // the forwarder was stopped through its own quit channel
		}
		// ChannelEvents started after Fini must close at once
		ch2 := make(chan tcell.Event, 1)
		cdone := make(chan struct{})
		go func() { s.ChannelEvents(ch2, make(chan struct{})); close(cdone) }()
		if cat, w := waitOrClassify(cdone, sc); cat != "" {
			if cat == "inconclusive" {
				return incon(w)
			}
			return fail("channelevents-after-fini", "ChannelEvents after Fini does not return: "+w, true)
		}
		_, _, seq0 := ft.Snapshot()
		if cat, w := probe("second-Fini", func() { s.Fini() }); cat != "" {
			if cat == "inconclusive" {
				return incon(w)
			}
			return fail(cat, w, true)
		}
		if _, _, seq1 := ft.Snapshot(); seq1 != seq0 {
			return fail("second-fini-not-noop", fmt.Sprintf("a second Fini made %d tty call(s)", seq1-seq0), false)
		}
		if cat, w := allMethods("Fini"); cat != "" {
			if cat == "inconclusive" {
				return incon(w)
			}
			return fail(cat, w+" :: "+sn.String(), true)
		}
		res.Verdict = "held"
		return res
	}

	switch sn.Kind {
	case "inwindow":
		// a second application goroutine calls Resume / Suspend / Fini while a Suspend is in its
		// unlocked window (between closing the stop channel and restoring the terminal): every
		// call returns, in whatever order the library serializes them
		other := []string{"Resume", "Suspend", "Fini", "Resume+Show"}[sn.EvFill%4]
		otherDone := make(chan struct{})
		var otherPanic any
		fired := false
		ft.OnNotifyNil = func() {
			if fired {
				return
			}
			fired = true
			go func() {
				defer close(otherDone)
				defer func() { otherPanic = recover() }()
				switch other {
				case "Resume":
					_ = s.Resume()
				case "Suspend":
					_ = s.Suspend()
				case "Fini":
					ft.BeginFini()
					s.Fini()
				case "Resume+Show":
					_ = s.Resume()
					s.Show()
				}
			}()
			// give the other call time to get as far as it can (done, or parked on a lock)
			for i := 0; i < 3000; i++ {
				select {
				case <-otherDone:
					return
				default:
					runtime.Gosched()
				}
			}
		}
		if cat, w := shutdown("suspend"); cat != "" {
			if cat == "inconclusive" {
				return incon("Suspend: " + w)
			}
			return fail(cat, fmt.Sprintf("Suspend with a concurrent %s from another goroutine in its unlocked window: %s", other, w), true)
		}
		if !fired {
			return incon("the shutdown window hook did not fire")
		}
		if cat, w := waitOrClassify(otherDone, sc); cat != "" {
			if cat == "inconclusive" {
				return incon("concurrent " + other + ": " + w)
			}
			return fail(cat+"@concurrent-"+other, fmt.Sprintf("%s called from another goroutine during a Suspend did not return: %s", other, w), true)
		}
		if otherPanic != nil {
			return fail("panic:concurrent-"+other, fmt.Sprintf("%s called from another goroutine during a Suspend panicked: %v", other, otherPanic), true)
		}
		ft.OnNotifyNil = nil
		return finalFini()
	case "starterr":
		// the terminal cannot be taken over again (Tty.Start fails once at Resume): Resume
		// reports it, a later Resume succeeds, input flows again, and the shutdown returns
		if cat, w := shutdown("suspend"); cat != "" {
			if cat == "inconclusive" {
				return incon("Suspend: " + w)
			}
			return fail(cat, "Suspend: "+w, true)
		}
		ft.Locked(func() { ft.StartErr = errors.New("injected start error") })
		var rerr error
		if cat, w := probe("Resume", func() { rerr = s.Resume() }); cat != "" {
			if cat == "inconclusive" {
				return incon(w)
			}
			return fail(cat, "Resume with a failing Tty.Start: "+w, true)
		}
		if rerr == nil {
			return fail("resume:start-error-swallowed", "Tty.Start failed but Resume returned nil", true)
		}
		ft.Locked(func() { ft.StartErr = nil })
		for k := 0; k < sn.EvFill%3; k++ {
			// the application may suspend again (a no-op) before it retries
			if cat, w := shutdown("suspend"); cat != "" && cat != "inconclusive" {
				return fail(cat, "Suspend after a failed Resume: "+w, true)
			}
		}
		if cat, w := probe("Resume", func() { rerr = s.Resume() }); cat != "" {
			if cat == "inconclusive" {
				return incon(w)
			}
			return fail(cat, "second Resume: "+w, true)
		}
		if rerr != nil {
			return fail("resume:refused-after-start-error", fmt.Sprintf("after a Resume that failed because Tty.Start failed, the next Resume (Start working again) returns %v", rerr), true)
		}
		if !feedOK([]byte("q")) {
			return incon("reader did not take input after the second Resume")
		}
		gotKey := false
		for i := 0; i < 50 && !gotKey; i++ {
			var ev tcell.Event
			if cat, w := probe("PollEvent", func() { ev = s.PollEvent() }); cat != "" {
				if cat == "inconclusive" {
					return incon(w)
				}
				return fail("after-resume:no-delivery", "a key typed after the second Resume is not delivered: "+w, true)
			}
			if k, ok := ev.(*tcell.EventKey); ok && k.Rune() == 'q' {
				gotKey = true
			}
		}
		if !gotKey {
			return fail("after-resume:no-delivery", "a key typed after the second Resume is not delivered", true)
		}
		if sn.EvFill%2 == 1 {
			if cat, w := shutdown("suspend"); cat != "" {
				if cat == "inconclusive" {
					return incon("Suspend: " + w)
				}
				return fail(cat, "Suspend after the recovered Resume: "+w, true)
			}
		}
		return finalFini()
	case "racefill":
		// many tries of: the event queue one short of full, then an input event and a
		// PostEvent racing for the last slot with nobody polling, then Suspend
		tries := sn.EvFill
		for try := 0; try < tries; try++ {
			for s.HasPendingEvent() {
				s.PollEvent()
			}
			// room for exactly k input events; the posters fire the moment the first of
			// them has landed, i.e. while the input path is still sending the rest
			k := 1 + try%48
			base := evCap - k
			for i := 0; i < base; i++ {
				_ = s.PostEvent(tcell.NewEventInterrupt(i))
			}
			var stopSpin atomic.Bool
			var pw sync.WaitGroup
			for p := 0; p < 2; p++ {
				pw.Add(1)
				go func(p int) {
					defer pw.Done()
					for !stopSpin.Load() {
						if n, _, _, _, _ := tcell.VerifQueueLevels(s); n > base+p {
							break
						}
					}
					_ = s.PostEvent(tcell.NewEventInterrupt(-1))
				}(p)
			}
			feedOK(bytes.Repeat([]byte("a"), k))
			for i := 0; i < 2000; i++ {
				if n, _, _, _, _ := tcell.VerifQueueLevels(s); n >= evCap {
					break
				}
				runtime.Gosched()
			}
			stopSpin.Store(true)
			pw.Wait()
			for i := 0; i < 50; i++ {
				runtime.Gosched()
			}
			if cat, w := shutdown("suspend"); cat != "" {
				if cat == "inconclusive" {
					return incon("Suspend: " + w)
				}
				return fail(cat, fmt.Sprintf("Suspend did not return (try %d of the race for the last queue slot): %s :: %s", try, w, sn.String()), true)
			}
			var rerr error
			if cat, w := probe("Resume", func() { rerr = s.Resume() }); cat != "" || rerr != nil {
				if cat == "inconclusive" {
					return incon(w)
				}
				return fail("resume-after-race", fmt.Sprintf("%s %v", w, rerr), true)
			}
		}
		return finalFini()
	case "fini":
		return finalFini()
	case "suspend", "cycle":
		if cat, w := shutdown("suspend"); cat != "" {
			if cat == "inconclusive" {
				return incon("Suspend: " + w)
			}
			return fail(cat, "Suspend did not return: "+w+" :: "+sn.String(), true)
		}
		stopActors()
		actors.Wait()
		if p := actorPanic.Load(); p != nil {
			return fail("panic:concurrent-"+sn.Conc, fmt.Sprintf("a %s call running concurrently with the shutdown panicked: %v :: %s", sn.Conc, p, sn.String()), true)
		}
		if lib := census.Library(census.Dump()); len(lib) > 0 {
			spinUntil(func() bool { return len(census.Library(census.Dump())) == 0 })
			if lib = census.Library(census.Dump()); len(lib) > 0 {
				return fail("goroutine-leak", fmt.Sprintf("after Suspend %d library goroutine(s) are still alive (%s %s)", len(lib), lib[0].TcellFrame(), lib[0].State), true)
			}
		}
		if sn.Kind == "suspend" {
			if cat, w := allMethods("Suspend"); cat != "" {
				if cat == "inconclusive" {
					return incon(w)
				}
				return fail(cat, w+" :: "+sn.String(), true)
			}
		}
		// Resume: input and resize delivery work again
		ft.Locked(func() { ft.ReadErrAt = 0 })
		var rerr error
		if cat, w := probe("Resume", func() { rerr = s.Resume() }); cat != "" {
			if cat == "inconclusive" {
				return incon(w)
			}
			return fail(cat, w, true)
		}
		if rerr != nil {
			return fail("resume-error", "Resume: "+rerr.Error(), false)
		}
		ft.Locked(func() { ft.ReadErrAt = 0 })
		// drain everything queued, then a key and a resize must come through
		sawKey, sawResize, sawEsc := false, false, false
		got := make(chan tcell.Event, 64)
		q2 := make(chan struct{})
		go s.ChannelEvents(got, q2)
		// resize events are dropped by design when the queue is full: let the
		// forwarder empty it first
		spinUntil(func() bool { n, _, _, _ := levels(); return n == 0 })
		ft.SetSize(33, 9)
		ft.NotifyNow()
		fed := make(chan struct{})
		// ... and a lone ESC must come out as the Esc key once the (real, 50 ms) escape
		// timeout has passed: bounded progress, judged structurally if it does not
		go func() { ft.Feed([]byte("ω")); ft.Feed([]byte("\x1b")); close(fed) }()
		deadline := time.After(20 * time.Second)
		for !(sawKey && sawResize && sawEsc) {
			select {
			case ev := <-got:
				switch e := ev.(type) {
				case *tcell.EventKey:
					if e.Rune() == 'ω' {
						sawKey = true
					}
					if e.Key() == tcell.KeyEsc {
						sawEsc = true
					}
				case *tcell.EventResize:
					if w, h := e.Size(); w == 33 && h == 9 {
						sawResize = true
					}
				}
			case <-deadline:
				close(q2)
				d := census.Dump()
				sg, all := census.Parked(d, nil)
				if all {
					return fail("after-resume:no-delivery", fmt.Sprintf("after Suspend+Resume key delivered=%v resize delivered=%v lone ESC delivered=%v; the library is idle (%s)", sawKey, sawResize, sawEsc, strings.Join(sg, ", ")), true)
				}
				return incon("delivery after Resume: watchdog")
			}
		}
		close(q2)
		<-fed
		// let the forwarder goroutine leave before Fini is judged
		spinUntil(func() bool {
			for _, g := range census.Dump() {
				if g.Has("ChannelEvents") {
					return false
				}
			}
			return true
		})
		return finalFini()
	}
	return incon("unknown kind")
}

// ---------------------------------------------------------------------------

func c06scenarios(r *core.Run) []c06scn {
	var out []c06scn
	add := func(s c06scn) { s.Idx = len(out); out = append(out, s) }
	const cap = 10 // the matrix is clipped to the real capacities at run time
	kinds := []string{"fini", "suspend", "cycle"}
	// fault matrix: queue fill x shutdown kind, reader blocked in Read
	for _, k := range kinds {
		for ev := 0; ev <= cap; ev++ {
			if false {
				continue
			}
			add(c06scn{Kind: k, EvFill: ev, KeyFill: -1, Reader: "read", Conc: "none"})
		}
		for key := 0; key <= cap; key++ {
			if false {
				continue
			}
			add(c06scn{Kind: k, EvFill: cap, KeyFill: key, Reader: "read", Conc: "none", DrainNil: key%2 == 1})
		}
		add(c06scn{Kind: k, EvFill: cap, KeyFill: cap, Parked: true, Reader: "read", Conc: "none"})
		// reader states
		for _, ev := range []int{0, cap} {
			add(c06scn{Kind: k, EvFill: ev, KeyFill: -1, Reader: "gate", Conc: "none"})
			add(c06scn{Kind: k, EvFill: ev, KeyFill: -1, Reader: "readerr", Conc: "none"})
		}
		add(c06scn{Kind: k, EvFill: cap, KeyFill: 3, Reader: "readerr", Conc: "none"})
		// concurrency
		for _, c := range []string{"poller", "poster", "show", "resize"} {
			add(c06scn{Kind: k, EvFill: 0, KeyFill: -1, Reader: "read", Conc: c})
			add(c06scn{Kind: k, EvFill: 0, KeyFill: -1, Reader: "read", Conc: c, Sched: int64(1000 + len(out))})
		}
	}
	for _, k := range kinds {
		for rep := 0; rep < r.Pick(4, 200); rep++ {
			add(c06scn{Kind: k, KeyFill: -1, Reader: "read", Conc: "none", PreResume: true})
			add(c06scn{Kind: k, KeyFill: -1, Reader: "read", Conc: "none", Stall: true})
			add(c06scn{Kind: k, KeyFill: -1, Reader: "read", Conc: "flood", Sched: int64(rep)})
		}
	}
	for i := 0; i < r.Pick(8, 40); i++ {
		add(c06scn{Kind: "inwindow", EvFill: i, KeyFill: -1, Reader: "read", Conc: "none", DrainNil: i%3 == 1})
	}
	for i := 0; i < 6; i++ {
		add(c06scn{Kind: "starterr", EvFill: i, KeyFill: -1, Reader: "read", Conc: "none", DrainNil: i%2 == 1})
	}
	for i := 0; i < r.Pick(12, 64); i++ {
		add(c06scn{Kind: "racefill", EvFill: r.Pick(400, 3000), KeyFill: -1, Reader: "read", Conc: "none", Sched: int64(i % 2)})
	}
	// the real devTty on a pty under a SIGWINCH storm
	for i := 0; i < r.Pick(6, 200); i++ {
		add(c06scn{Kind: "pty", KeyFill: -1, Reader: "read", Conc: "resize", Sched: int64(i % 2 * (7000 + i))})
	}
	// randomised schedules
	n := r.Pick(400, 60000)
	for i := 0; i < n; i++ {
		rg := r.Rand("rand", i)
		s := c06scn{Kind: kinds[rg.IntN(3)], EvFill: rg.IntN(cap + 1), KeyFill: -1, Reader: []string{"read", "read", "gate", "readerr"}[rg.IntN(4)],
			Conc: []string{"none", "poller", "poster", "show", "resize", "flood"}[rg.IntN(6)], Sched: int64(1 + rg.IntN(1<<30)), DrainNil: rg.IntN(2) == 0}
		if s.Conc != "none" {
			s.EvFill = 0
		} else if s.EvFill == cap && rg.IntN(2) == 0 {
			s.KeyFill = rg.IntN(cap + 1)
			s.Parked = s.KeyFill == cap && rg.IntN(2) == 0
			if s.Parked {
				s.Reader = "read" // a parked reader cannot be fed the byte that arms the other reader states
			}
		}
		add(s)
	}
	return out
}

func C06(r *core.Run) {
	if os.Getenv("VERIF_C06_WORKER") != "" {
		c06worker()
		os.Exit(0)
	}
	r.Level = "fault_enumeration"
	r.Rule = "fault enumeration over the state at shutdown on a real terminfo screen over the fake tty: event-queue fill 0..cap, and with the main loop parked on a full event queue, chunk-queue fill 0..cap plus 'reader parked on the next send' (levels read through the verif hook) x {Fini, Suspend, Suspend->Resume->Fini} x reader state {blocked in Read, held between Read and the queue send by a schedule-point gate, Read error at the next call, Read error with queues full} x concurrent actor {none, poller+input, poster, Show loop, resize storm, flood (posters + input, nobody polling)}, plus a redundant Resume() before the shutdown and a main loop held up past the escape timeout by a slow redraw with a partial sequence buffered, then seeded randomised schedules through the schedule controller (yields/sleeps at the verif schedule points, interleaving recorded). Each scenario runs in a worker child process; the shutdown call runs on its own goroutine and is judged structurally: returned, or two goroutine dumps a second apart in which every tcell goroutine is parked in the same place (deadlock), or the draw step counter exceeding 4*w*h+16 (livelock). After Fini: no library goroutine left, PollEvent yields nil within queued+1 calls, ChannelEvents returns, a second Fini makes no tty call, 34 Screen methods return without panic; after Suspend the same methods return; after Resume a fed key and a resize are delivered. non-trivial = scenario executed to a verdict; distinct = distinct scenario descriptor (+ schedule signature)."
	r.Assumptions = []string{"liveness is restated as bounded progress: a call that has not returned is a violation only with a structural witness (all tcell goroutines parked identically in two dumps, or the draw step bound exceeded); a watchdog expiry alone is inconclusive", "schedule perturbations are placed only at channel operations and lock boundaries"}
	scns := c06scenarios(r)
	r.Set("scenarios", len(scns))
	self, _ := os.Executable()
	workers := runtime.GOMAXPROCS(0)
	var mu sync.Mutex
	next := 0
	schedSigs := map[string]bool{}
	var wg sync.WaitGroup
	for w := 0; w < workers; w++ {
		wg.Add(1)
		go func() {
			defer wg.Done()
			for {
				mu.Lock()
				if next >= len(scns) {
					mu.Unlock()
					return
				}
				// a worker takes a batch; it is restarted after an aborting scenario
				from := next
				to := min(from+6, len(scns))
				next = to
				mu.Unlock()
				for from < to {
					done, results, crashed := c06spawn(self, scns[from:to])
					for _, rs := range results {
						sn := scns[rs.Idx]
						mu.Lock()
						if rs.SchedSig != "" {
							schedSigs[rs.SchedSig] = true
						}
						mu.Unlock()
						r.Count("schedule_points_hit", int64(rs.Points))
						switch rs.Verdict {
						case "skipped":
							r.Case("")
							r.Count("pty_scenarios_skipped", 1)
						case "held":
							r.Case(sn.String())
						case "violated":
							r.Case(sn.String())
							r.Violate(rs.Sig+"|"+sn.Kind, rs.What, sn)
						default:
							r.Case("")
							r.Inconclusive(fmt.Sprintf("scenario %s: %s", sn.String(), rs.What))
						}
						if rs.Idx < 3 {
							r.Sample(5, map[string]any{"scenario": sn, "verdict": rs.Verdict, "interleaving": short(rs.SchedSig, 300)})
						}
					}
					from += done
					if crashed != "" && from < to {
						sn := scns[from]
						r.Case(sn.String())
						r.Violate("worker-crash|"+sn.Kind, fmt.Sprintf("the worker process died while running %s: %s", sn.String(), short(crashed, 600)), sn)
						from++
					}
				}
			}
		}()
	}
	wg.Wait()
	r.Set("distinct_interleaving_signatures", len(schedSigs))
}

// c06spawn runs a batch in a child; returns how many scenarios completed, their
// results, and crash output if the child died before finishing the batch.
func c06spawn(self string, batch []c06scn) (int, []c06res, string) {
	b, _ := json.Marshal(batch)
	cmd := exec.Command(self, "C06")
	cmd.Env = append(os.Environ(), "VERIF_C06_WORKER=1")
	cmd.Stdin = strings.NewReader(string(b))
	var errb strings.Builder
	cmd.Stderr = &errb
	out, err := cmd.StdoutPipe()
	if err != nil {
		return 0, nil, err.Error()
	}
	if err := cmd.Start(); err != nil {
		return 0, nil, err.Error()
	}
	var results []c06res
	scn := bufio.NewScanner(out)
	scn.Buffer(make([]byte, 1<<20), 1<<24)
	aborted := false
	for scn.Scan() {
		line := scn.Text()
		if strings.HasPrefix(line, "RESULT ") {
			var rs c06res
			if json.Unmarshal([]byte(line[7:]), &rs) == nil {
				results = append(results, rs)
				if rs.Abort {
					aborted = true
				}
			}
		}
	}
	werr := cmd.Wait()
	if len(results) < len(batch) && !aborted {
		msg := errb.String()
		if werr != nil {
			msg = werr.Error() + ": " + msg
		}
		var ee *exec.ExitError
		if errors.As(werr, &ee) || werr == nil {
			return len(results), results, "exit: " + msg
		}
		return len(results), results, msg
	}
	return len(results), results, ""
}

func c06worker() {
	var batch []c06scn
	if err := json.NewDecoder(os.Stdin).Decode(&batch); err != nil {
		fmt.Fprintln(os.Stderr, "worker: bad batch:", err)
		os.Exit(3)
	}
	for _, sn := range batch {
		fmt.Printf("START %s\n", sn.String())
		rs := c06run(sn)
		b, _ := json.Marshal(rs)
		fmt.Printf("RESULT %s\n", b)
		if rs.Abort {
			os.Exit(0) // stuck goroutines are left behind: a fresh worker continues
		}
	}
}
