package props

import (
	"fmt"
	"math/rand/v2"
	"os"
	"strings"

	"github.com/gdamore/tcell/v2"
	runewidth "github.com/mattn/go-runewidth"

	"verif/core"
)

func init() { register("C08", C08) }

var rwCond = func() *runewidth.Condition {
	c := runewidth.NewCondition()
	c.EastAsianWidth = os.Getenv("RUNEWIDTH_EASTASIAN") == "1"
	return c
}()

// refWidth: display width the statements assume (go-runewidth, non East Asian).
func refWidth(r rune) int { return rwCond.RuneWidth(r) }

// mustBlank reports whether a primary rune is shown as a blank of width 1.
func mustBlank(r rune) bool { return r < ' ' || refWidth(r) == 0 }

func effRune(r rune) rune {
	if mustBlank(r) {
		return ' '
	}
	return r
}

type c08cell struct {
	r       rune
	comb    []rune
	st      tcell.Style
	snap    *c08snap // content when last marked clean; nil = must be dirty
	touched bool     // written (even identically) or neighbour-affected since last marked clean
	lock    int      // 0 unlocked, 1 locked, 2 unknown (locked before a dimension-changing Resize)
}

type c08snap struct {
	r    rune
	comb []rune
	st   tcell.Style
}

func runesEq(a, b []rune) bool {
	if len(a) != len(b) {
		return false
	}
	for i := range a {
		if a[i] != b[i] {
			return false
		}
	}
	return true
}

type c08model struct {
	w, h  int
	cells []c08cell
}

func (m *c08model) in(x, y int) bool { return x >= 0 && y >= 0 && x < m.w && y < m.h }

func mergeStyle(st, old tcell.Style) tcell.Style {
	fg, bg, _ := st.Decompose()
	ofg, obg, _ := old.Decompose()
	if fg == tcell.ColorNone {
		st = st.Foreground(ofg)
	}
	if bg == tcell.ColorNone {
		st = st.Background(obg)
	}
	return st
}

func (m *c08model) set(x, y int, r rune, comb []rune, st tcell.Style) {
	if !m.in(x, y) {
		return
	}
	c := &m.cells[y*m.w+x]
	contentChanged := c.r != r || !runesEq(c.comb, comb)
	if contentChanged && !mustBlank(c.r) && refWidth(c.r) == 2 && x+1 < m.w {
		// changing a wide rune dirties every column it covered
		n := &m.cells[y*m.w+x+1]
		n.snap = nil
	}
	if refWidth(r) == 2 && x+1 < m.w {
		m.cells[y*m.w+x+1].touched = true
	}
	c.r, c.comb, c.st = r, append([]rune(nil), comb...), mergeStyle(st, c.st)
	c.touched = true
}

var c08runes = []rune{'a', 'b', 'Z', '#', ' ', 'é', 'λ', '─', '世', '界', 'あ', '😀', '한',
	0, 7, 0x1b, 0x7f, 0x85, 0x9b, 0x200b, 0x202e, 0xfeff, 0x301, -1, 0x110000, 0xd800}
var c08fill = []rune{'a', 'x', ' ', '#', 'é', '─', 0, 7, 0x1b, 0x7f, 0x9b, 0x200b, 0x301, 0xfeff, -1}

func c08style(rg *rand.Rand) tcell.Style {
	col := func() tcell.Color {
		switch rg.IntN(6) {
		case 0:
			return tcell.ColorDefault
		case 1:
			return tcell.ColorNone
		case 2:
			return tcell.ColorReset
		case 3:
			return tcell.PaletteColor(rg.IntN(256))
		case 4:
			return tcell.NewRGBColor(int32(rg.IntN(4)*85), int32(rg.IntN(4)*85), 0)
		}
		return tcell.PaletteColor(rg.IntN(4))
	}
	if rg.IntN(4) == 0 {
		return tcell.StyleDefault
	}
	st := tcell.StyleDefault.Foreground(col()).Background(col())
	if rg.IntN(4) == 0 {
		st = st.Bold(true)
	}
	if rg.IntN(6) == 0 {
		st = st.Underline(tcell.UnderlineStyleCurly, tcell.PaletteColor(rg.IntN(8)))
	}
	if rg.IntN(8) == 0 {
		st = st.Url("http://h/" + fmt.Sprint(rg.IntN(3)))
	}
	return st
}

func C08(r *core.Run) {
	r.Rule = "seeded histories of SetContent/Fill/Resize/Invalidate/SetDirty/LockCell/UnlockCell on a real CellBuffer in lock-step with a reference array; after every operation every cell (and the out-of-range ring) is compared: GetContent exactly, Dirty three-valued (must-true / must-false / unconstrained). non-trivial = a history; distinct = distinct op sequence. Caller-side mutation of the combining slice after each SetContent."
	r.Assumptions = []string{"go-runewidth (non East Asian) defines the width", "Dirty after Resize is required only when the dimensions change", "Fill with a wide rune is documented as unsupported and not generated"}
	nh := r.Pick(40000, 1500000)
	core.Parallel(16, func(w int) {
		for i := w; i < nh; i += 16 {
			c08history(r, i)
		}
	})
}

func c08history(r *core.Run, idx int) {
	rg := r.Rand("h", idx)
	var cb tcell.CellBuffer
	m := &c08model{}
	nops := 10 + rg.IntN(50)
	var trace []string
	tr := func(f string, a ...any) { trace = append(trace, fmt.Sprintf(f, a...)) }
	resize := func(w, h int) {
		cb.Resize(w, h)
		tr("Resize(%d,%d)", w, h)
		if w == m.w && h == m.h {
			return
		}
		n := make([]c08cell, w*h)
		for y := 0; y < h; y++ {
			for x := 0; x < w; x++ {
				if x < m.w && y < m.h {
					o := m.cells[y*m.w+x]
					n[y*w+x] = c08cell{r: o.r, comb: o.comb, st: o.st}
					if o.lock != 0 {
						n[y*w+x].lock = 2
					}
				}
			}
		}
		m.cells, m.w, m.h = n, w, h
	}
	resize(rg.IntN(13), rg.IntN(7))
	fail := func(sig, what string) {
		r.Violate(sig, fmt.Sprintf("%s after: %s", what, strings.Join(trace, " ")), map[string]any{"history": idx, "trace": trace})
	}
	check := func() bool {
		if w, h := cb.Size(); w != m.w || h != m.h {
			fail("size", fmt.Sprintf("Size()=%d,%d want %d,%d", w, h, m.w, m.h))
			return false
		}
		for y := -1; y <= m.h; y++ {
			for x := -1; x <= m.w; x++ {
				gr, gc, gs, gw := cb.GetContent(x, y)
				if !m.in(x, y) {
					if gr != 0 || len(gc) != 0 || gs != tcell.StyleDefault || gw < 0 || gw > 1 {
						fail("get:out-of-range", fmt.Sprintf("GetContent(%d,%d) out of range = %q %q %v w=%d", x, y, gr, gc, gs, gw))
						return false
					}
					continue
				}
				c := &m.cells[y*m.w+x]
				er, ew := c.r, refWidth(c.r)
				if mustBlank(c.r) {
					er, ew = ' ', 1
				}
				if gr != er || gw != ew || !runesEq(gc, c.comb) || gs != c.st {
					fail("get:content", fmt.Sprintf("GetContent(%d,%d) = (%q,%q,%+v,w=%d) want (%q,%q,%+v,w=%d) [stored rune %U]", x, y, gr, gc, gs, gw, er, c.comb, c.st, ew, c.r))
					return false
				}
				d := cb.Dirty(x, y)
				switch {
				case c.lock == 2:
				case c.lock == 1:
					if d {
						fail("dirty:locked", fmt.Sprintf("Dirty(%d,%d)=true on a locked cell", x, y))
						return false
					}
				case c.snap == nil:
					if !d {
						fail("dirty:missed-invalidate", fmt.Sprintf("Dirty(%d,%d)=false but the cell was never clean / invalidated / resized / unlocked / covered by a changed wide rune", x, y))
						return false
					}
				case effRune(c.snap.r) != effRune(c.r) || !runesEq(c.snap.comb, c.comb) || c.snap.st != c.st:
					// (compared on what GetContent presents: all must-blank runes read back as ' ')
					if !d {
						fail("dirty:missed-change", fmt.Sprintf("Dirty(%d,%d)=false but content differs from when it was marked clean (%q%q -> %q%q, style changed=%v)", x, y, c.snap.r, c.snap.comb, c.r, c.comb, c.snap.st != c.st))
						return false
					}
				case c.snap.r != c.r:
					// same presentation, different stored rune: unconstrained
				case !c.touched:
					if d {
						fail("dirty:spurious", fmt.Sprintf("Dirty(%d,%d)=true although nothing touched the cell since SetDirty(false)", x, y))
						return false
					}
				}
			}
		}
		return true
	}
	clean := func(x, y int) {
		cb.SetDirty(x, y, false)
		if m.in(x, y) {
			c := &m.cells[y*m.w+x]
			if c.r == 0 {
				// marking a never-written cell clean is allowed to store a blank
				// (observationally the same: rune 0 reads back as a blank)
				c.r = 0
			}
			c.snap = &c08snap{r: c.r, comb: c.comb, st: c.st}
			c.touched = false
		}
	}
	if !check() {
		return
	}
	for k := 0; k < nops; k++ {
		x, y := rg.IntN(m.w+4)-2, rg.IntN(m.h+4)-2
		switch op := rg.IntN(100); {
		case op < 45:
			rn := c08runes[rg.IntN(len(c08runes))]
			var comb []rune
			switch rg.IntN(6) {
			case 0:
				comb = []rune{0x301}
			case 1:
				comb = []rune{0x308, 0x20dd}
			case 2:
				comb = []rune{}
			}
			st := c08style(rg)
			if rg.IntN(4) == 0 && m.in(x, y) { // re-store identical content
				c := m.cells[y*m.w+x]
				rn, comb, st = c.r, append([]rune(nil), c.comb...), c.st
				if len(comb) > 0 && rg.IntN(2) == 0 {
					// ... except for one combining rune (same length, same base, same style)
					alt := []rune{0x301, 0x308, 0x20dd, 0x302}
					k := rg.IntN(len(comb))
					for comb[k] == alt[0] {
						alt = alt[1:]
					}
					comb[k] = alt[0]
				}
			}
			arg := append([]rune(nil), comb...)
			cb.SetContent(x, y, rn, arg, st)
			tr("SetContent(%d,%d,%U,%U,%+v)", x, y, rn, comb, st)
			m.set(x, y, rn, comb, st)
			for j := range arg { // caller mutates its slice afterwards
				arg[j] = 'X'
			}
		case op < 50:
			rn := c08fill[rg.IntN(len(c08fill))]
			st := c08style(rg)
			cb.Fill(rn, st)
			tr("Fill(%U,%+v)", rn, st)
			for j := range m.cells {
				xx, yy := j%m.w, j/m.w
				m.set(xx, yy, rn, nil, st)
			}
		case op < 56:
			resize(rg.IntN(13), rg.IntN(7))
		case op < 60:
			cb.Invalidate()
			tr("Invalidate()")
			for j := range m.cells {
				m.cells[j].snap = nil
			}
		case op < 72:
			if rg.IntN(3) == 0 {
				cb.SetDirty(x, y, true)
				tr("SetDirty(%d,%d,true)", x, y)
				if m.in(x, y) {
					m.cells[y*m.w+x].snap = nil
				}
			} else {
				clean(x, y)
				tr("SetDirty(%d,%d,false)", x, y)
			}
		case op < 80:
			tr("clean-all")
			for yy := 0; yy < m.h; yy++ {
				for xx := 0; xx < m.w; xx++ {
					clean(xx, yy)
				}
			}
		case op < 88:
			cb.LockCell(x, y)
			tr("LockCell(%d,%d)", x, y)
			if m.in(x, y) {
				m.cells[y*m.w+x].lock = 1
			}
		case op < 96:
			cb.UnlockCell(x, y)
			tr("UnlockCell(%d,%d)", x, y)
			if m.in(x, y) {
				m.cells[y*m.w+x].lock = 0
				m.cells[y*m.w+x].snap = nil
			}
		default:
			// reads only
		}
		if !check() {
			r.Case("")
			return
		}
	}
	r.Case(strings.Join(trace, ";"))
	r.Count("operations", int64(nops))
	if idx < 2 {
		r.Sample(4, map[string]any{"history": idx, "ops": trace})
	}
}
