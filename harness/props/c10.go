package props

import (
	"bufio"
	"encoding/base64"
	"encoding/json"
	"fmt"
	"golang.org/x/sys/unix"
	"os"
	"os/exec"
	"path/filepath"
	"regexp"
	"runtime"
	"sort"
	"strings"
	"sync"
	"sync/atomic"
	"syscall"
	"time"

	"github.com/gdamore/tcell/v2"

	"verif/core"
	"verif/faketty"
	"verif/vt"
)

func init() { register("C10", C10) }

type c10method struct {
	name string
	f    func(s tcell.Screen, i int)
	sim  bool // also valid on SimulationScreen
}

func c10methods() []c10method {
	st := func(i int) tcell.Style {
		return tcell.StyleDefault.Foreground(tcell.PaletteColor(i % 16)).Bold(i%2 == 0)
	}
	return []c10method{
		{"Clear", func(s tcell.Screen, i int) { s.Clear() }, true},
		{"Fill", func(s tcell.Screen, i int) { s.Fill(rune('a'+i%26), st(i)) }, true},
		{"SetCell", func(s tcell.Screen, i int) {
			if i%2 == 0 {
				s.SetCell(i%4, (i/4)%2, st(i), 'e', rune(0x301+i%2), rune(0x323+i%3)) // combining marks, few cells
			} else {
				s.SetCell(i%40, i%10, st(i), rune('A'+i%26))
			}
		}, true},
		{"GetContent", func(s tcell.Screen, i int) {
			// the application looks at what it got back (a few cells hold combining marks)
			if i%3 != 0 {
				c10useResult(s.GetContent(i%4, (i/4)%2))
			} else {
				c10useResult(s.GetContent(i%40, i%10))
			}
		}, true},
		{"SetContent", func(s tcell.Screen, i int) {
			if i%2 == 0 {
				s.SetContent(i%4, (i/4)%2, 'o', []rune{rune(0x308 + i%2), rune(0x331 + i%3)}, st(i))
			} else {
				s.SetContent(i%40, i%10, rune('0'+i%10), nil, st(i))
			}
		}, true},
		{"SetStyle", func(s tcell.Screen, i int) { s.SetStyle(st(i)) }, true},
		{"ShowCursor", func(s tcell.Screen, i int) { s.ShowCursor(i%40, i%10) }, true},
		{"HideCursor", func(s tcell.Screen, i int) { s.HideCursor() }, true},
		{"SetCursorStyle", func(s tcell.Screen, i int) { s.SetCursorStyle(tcell.CursorStyle(i%7), tcell.PaletteColor(i%8)) }, true},
		{"Size", func(s tcell.Screen, i int) { s.Size() }, true},
		{"PollEvent", func(s tcell.Screen, i int) {
			_ = s.PostEvent(tcell.NewEventInterrupt(i))
			c10useEvent(s.PollEvent(), c10heldOf(curGoid()))
		}, true},
		{"HasPendingEvent", func(s tcell.Screen, i int) { s.HasPendingEvent() }, true},
		{"PostEvent", func(s tcell.Screen, i int) { _ = s.PostEvent(tcell.NewEventInterrupt(i)) }, true},
		{"EnableMouse", func(s tcell.Screen, i int) { s.EnableMouse(tcell.MouseFlags(1 + i%7)) }, true},
		{"DisableMouse", func(s tcell.Screen, i int) { s.DisableMouse() }, true},
		{"EnablePaste", func(s tcell.Screen, i int) { s.EnablePaste() }, true},
		{"DisablePaste", func(s tcell.Screen, i int) { s.DisablePaste() }, true},
		{"EnableFocus", func(s tcell.Screen, i int) { s.EnableFocus() }, true},
		{"DisableFocus", func(s tcell.Screen, i int) { s.DisableFocus() }, true},
		{"HasMouse", func(s tcell.Screen, i int) { s.HasMouse() }, true},
		{"Colors", func(s tcell.Screen, i int) { s.Colors() }, true},
		{"Show", func(s tcell.Screen, i int) { c10draw(func() { s.Show() }) }, true},
		{"Sync", func(s tcell.Screen, i int) { c10draw(func() { s.Sync() }) }, true},
		{"CharacterSet", func(s tcell.Screen, i int) { s.CharacterSet() }, true},
		{"RegisterRuneFallback", func(s tcell.Screen, i int) { s.RegisterRuneFallback(rune(0x2500+i%8), "+") }, true},
		{"UnregisterRuneFallback", func(s tcell.Screen, i int) { s.UnregisterRuneFallback(rune(0x2500 + i%8)) }, true},
		{"CanDisplay", func(s tcell.Screen, i int) { s.CanDisplay(rune(0x2500+i%8), i%2 == 0) }, true},
		{"HasKey", func(s tcell.Screen, i int) { s.HasKey(tcell.KeyF1 + tcell.Key(i%12)) }, true},
		{"Beep", func(s tcell.Screen, i int) { _ = s.Beep() }, true},
		{"SetSize", func(s tcell.Screen, i int) { s.SetSize(40+i%3, 12+i%2) }, true},
		{"LockRegion", func(s tcell.Screen, i int) { s.LockRegion(i%38, i%9, 2, 1, i%2 == 0) }, true},
		{"Tty", func(s tcell.Screen, i int) { s.Tty() }, true},
		{"SetTitle", func(s tcell.Screen, i int) { s.SetTitle(fmt.Sprint("t", i%5)) }, true},
		{"SetClipboard", func(s tcell.Screen, i int) { s.SetClipboard([]byte{byte('a' + i%26)}) }, true},
		{"GetClipboard", func(s tcell.Screen, i int) { s.GetClipboard() }, true},
		{"SuspendResume", func(s tcell.Screen, i int) {
			if i%20 == 0 {
				_ = s.Suspend()
				_ = s.Resume()
			} else {
				runtime.Gosched()
			}
		}, false},
		{"Fini", func(s tcell.Screen, i int) {
			if i == 50 {
				s.Fini()
			} else {
				runtime.Gosched()
			}
		}, true},
	}
}

// c10useResult is the application using what GetContent returned, after the call.
//
//go:noinline
func c10useResult(mainc rune, combc []rune, st tcell.Style, width int) {
	sum := mainc + rune(width)
	for _, c := range combc {
		sum += c
	}
	c10sink.Store(int64(sum))
}

var c10sink atomic.Int64

// c10useEvent is the application using an event it received (PollEvent / ChannelEvents),
// after the call: it reads what the event carries. The payload of a clipboard event is kept
// and looked at again when later events arrive: an event belongs to the application once
// delivered, so its contents must neither be written by the library any more (a data race,
// attributed like c10useResult) nor change.
//
//go:noinline
func c10useEvent(ev tcell.Event, held *c10held) {
	if ev == nil {
		return
	}
	if held.data != nil {
		if got := held.ev.Data(); string(got) != held.copy && held.problem.Load() == nil {
			held.problem.Store(fmt.Sprintf("the payload of a delivered clipboard event changed while the application held it: was %q, is %q", held.copy, string(got)))
		}
	}
	sum := int64(0)
	switch e := ev.(type) {
	case *tcell.EventClipboard:
		d := e.Data()
		for _, b := range d {
			sum += int64(b)
		}
		held.ev, held.data, held.copy = e, d, string(d)
	case *tcell.EventKey:
		sum = int64(e.Rune()) + int64(e.Key())
	case *tcell.EventMouse:
		x, y := e.Position()
		sum = int64(x + y)
	}
	c10sink.Store(sum)
}

var (
	c10heldMu      sync.Mutex
	c10heldBy      map[int64]*c10held
	c10heldProblem *atomic.Value
)

func c10heldOf(goid int64) *c10held {
	c10heldMu.Lock()
	defer c10heldMu.Unlock()
	h := c10heldBy[goid]
	if h == nil {
		h = &c10held{problem: c10heldProblem}
		c10heldBy[goid] = h
	}
	return h
}

// c10held: the clipboard event one consumer goroutine is holding on to.
type c10held struct {
	ev      *tcell.EventClipboard
	data    []byte
	copy    string
	problem *atomic.Value
}

// c10draw wraps Show/Sync calls of the job under test (one job at a time per
// worker process); the job installs a checker of the write log.
var c10drawHook func(call func())

func c10draw(call func()) {
	if h := c10drawHook; h != nil {
		h(call)
		return
	}
	call()
}

// curGoid returns the id of the calling goroutine (from its stack header).
func curGoid() int64 {
	var buf [64]byte
	n := runtime.Stack(buf[:], false)
	var id int64
	for _, c := range buf[len("goroutine "):n] {
		if c < '0' || c > '9' {
			break
		}
		id = id*10 + int64(c-'0')
	}
	return id
}

type c10job struct {
	Idx     int      `json:"idx"`
	Methods []string `json:"methods"`
	Sim     bool     `json:"sim"`
	Iters   int      `json:"iters"`
	Env     string   `json:"env,omitempty"` // NAME=value set for the job (the library reads it at Init/Resume)
	Pty     bool     `json:"pty,omitempty"` // the library's own /dev/tty driver on a pseudo terminal instead of the fake tty
}

type c10out struct {
	Idx      int    `json:"idx"`
	Problem  string `json:"problem,omitempty"`
	Sig      string `json:"sig,omitempty"`
	Blocks   int    `json:"blocks"`
	Controls int    `json:"controls"`
	Hung     bool   `json:"hung,omitempty"`
}

// c10runJob: the methods of the job run concurrently on one screen together
// with the library's own goroutines kept busy (input, resize notifications).
func c10runJob(j c10job) (out c10out) {
	for _, v := range []string{"TCELL_TRUECOLOR", "COLORTERM", "TCELL_ALTSCREEN"} {
		os.Unsetenv(v)
	}
	os.Setenv("LC_ALL", "C.UTF-8")
	if k, v, ok := strings.Cut(j.Env, "="); ok {
		os.Setenv(k, v)
	}
	out.Idx = j.Idx
	ms := map[string]c10method{}
	for _, m := range c10methods() {
		ms[m.name] = m
	}
	var s tcell.Screen
	var master *os.File
	var ft *faketty.Tty
	var term *vt.Term
	var termErr atomic.Value
	if j.Sim {
		ss := tcell.NewSimulationScreen("UTF-8")
		if err := ss.Init(); err != nil {
			out.Problem = err.Error()
			return
		}
		ss.SetSize(40, 10)
		s = ss
	} else if j.Pty {
		m, path, err := openPty(40, 12)
		if err != nil {
			out.Problem = "no pty: " + err.Error()
			return
		}
		master = m
		defer master.Close()
		go func() { // the terminal swallows the output
			buf := make([]byte, 8192)
			for {
				if _, err := master.Read(buf); err != nil {
					return
				}
			}
		}()
		dt, err := tcell.NewDevTtyFromDev(path)
		if err != nil {
			out.Problem = "NewDevTtyFromDev: " + err.Error()
			return
		}
		ti := Pristine("xterm-256color")
		ti.PadChar = ""
		s, err = tcell.NewTerminfoScreenFromTtyTerminfo(dt, ti)
		if err != nil {
			out.Problem = err.Error()
			return
		}
		if err := s.Init(); err != nil {
			out.Problem = err.Error()
			return
		}
	} else {
		ti := Pristine("xterm-256color")
		ti.PadChar = ""
		ft = faketty.New(40, 12)
		term = vt.New(43, 14)
		term.Acs = vt.BuildAcs(ti.AltChars)
		var wlog []int64 // goroutine id of every Write, in order (appended under the tty lock)
		c10drawHook = func(call func()) {
			me := curGoid()
			var from int
			ft.Locked(func() { from = len(wlog) })
			call()
			ft.Locked(func() {
				// the writes this goroutine made during the call must be one run: nothing
				// from another goroutine in between
				first, last := -1, -1
				for k := from; k < len(wlog); k++ {
					if wlog[k] == me {
						if first < 0 {
							first = k
						}
						last = k
					}
				}
				for k := first; first >= 0 && k <= last; k++ {
					if wlog[k] != me && termErr.Load() == nil {
						termErr.Store(fmt.Sprintf("the output of one Show/Sync reached the tty in %d writes with a write of another goroutine in between", last-first+1))
					}
				}
			})
		}
		defer func() { c10drawHook = nil }()
		ft.OnWrite = func(b []byte) {
			wlog = append(wlog, curGoid())
			term.Feed(b)
			out.Blocks++ // under the tty lock; read only after the loops have ended
			if !term.InGround() && termErr.Load() == nil {
				termErr.Store(fmt.Sprintf("a write block of %d bytes ends inside a control sequence or character: %q", len(b), tail(b, 40)))
			}
			if len(term.Errors) > 0 && termErr.Load() == nil {
				termErr.Store("output is not well formed: " + term.Errors[0])
			}
		}
		for _, n := range j.Methods {
			if n == "SuspendResume" && j.Idx%2 == 0 {
				// every second job with Suspend/Resume cycles: one read of the tty fails while the
				// screen is engaged (the input loop ends; the next Resume has to bring up exactly
				// one set of loops again)
				ft.ReadErrAt = 25
			}
		}
		var err error
		s, err = tcell.NewTerminfoScreenFromTtyTerminfo(ft, ti)
		if err != nil {
			out.Problem = err.Error()
			return
		}
		ft.BeginApp()
		if err := s.Init(); err != nil {
			out.Problem = err.Error()
			return
		}
	}
	if !j.Sim {
		// a fully styled screen: one update is well above 4 KiB
		for y := 0; y < 12; y++ {
			for x := 0; x < 40; x++ {
				s.SetContent(x, y, rune('a'+(x+y)%26), nil, tcell.StyleDefault.Foreground(tcell.PaletteColor((x+y)%256)).Background(tcell.PaletteColor((x*7+y)%256)).Bold(x%2 == 0))
			}
		}
	}
	hasPoll, hasFini := false, false
	for _, n := range j.Methods {
		if n == "PollEvent" {
			hasPoll = true
		}
		if n == "Fini" {
			hasFini = true
		}
	}
	var stop int32
	var bg sync.WaitGroup
	// library goroutines busy: input and resize notifications
	if j.Pty {
		bg.Add(1)
		go func() {
			defer bg.Done()
			k := 0
			for atomic.LoadInt32(&stop) == 0 {
				k++
				_, _ = master.Write([]byte(fmt.Sprintf("k\x1b[<0;%d;%dMq", 1+k%40, 1+k%10)))
				if k%20 == 0 {
					_ = unix.IoctlSetWinsize(int(master.Fd()), unix.TIOCSWINSZ, &unix.Winsize{Row: uint16(12 + k%2), Col: uint16(40 + k%3)})
					_ = syscall.Kill(os.Getpid(), syscall.SIGWINCH)
				}
				time.Sleep(300 * time.Microsecond)
			}
		}()
	} else if !j.Sim {
		bg.Add(2)
		go func() {
			defer bg.Done()
			k := 0
			for atomic.LoadInt32(&stop) == 0 {
				k++
				if k%40 == 0 {
					// a lone ESC that only the escape timeout can resolve, then silence past the timeout
					select {
					case ft.FeedC() <- []byte("\x1b"):
						time.Sleep(60 * time.Millisecond)
					case <-time.After(200 * time.Microsecond):
					}
					continue
				}
				if k%15 == 7 {
					// the terminal answers a clipboard query (OSC 52), more input right behind it
					select {
					case ft.FeedC() <- []byte(fmt.Sprintf("\x1b]52;c;%s\x07", base64.StdEncoding.EncodeToString([]byte(fmt.Sprintf("clipboard text %d of the job, long enough to matter", k))))):
					case <-time.After(200 * time.Microsecond):
					}
					continue
				}
				select {
				case ft.FeedC() <- []byte(fmt.Sprintf("k\x1b[<0;%d;%dMé", 1+k%40, 1+k%10)):
				case <-time.After(200 * time.Microsecond):
				}
			}
		}()
		go func() {
			defer bg.Done()
			k := 0
			for atomic.LoadInt32(&stop) == 0 {
				k++
				if k%50 == 0 {
					ft.SetSize(40+k%3, 12+k%2)
					ft.NotifyNow()
				}
				runtime.Gosched()
			}
		}()
	}
	// a drainer keeps the event queue moving unless PollEvent is itself under test
	drainQuit := make(chan struct{})
	var evProblem atomic.Value
	c10heldMu.Lock()
	c10heldBy = map[int64]*c10held{}
	c10heldProblem = &evProblem
	c10heldMu.Unlock()
	if !hasPoll {
		drained := make(chan tcell.Event, 8)
		go s.ChannelEvents(drained, drainQuit)
		go func() {
			held := &c10held{problem: &evProblem}
			for ev := range drained {
				c10useEvent(ev, held)
			}
		}()
	}
	var wg sync.WaitGroup
	var pan atomic.Value
	var othersLeft, pollersLeft, quotaLeft int32
	usesResult := false
	for _, n := range j.Methods {
		if n == "GetContent" {
			usesResult = true
		}
	}
	for _, n := range j.Methods {
		if n == "PollEvent" {
			pollersLeft++
		} else {
			othersLeft++
			quotaLeft++
		}
	}
	for _, n := range j.Methods {
		m := ms[n]
		wg.Add(1)
		go func() {
			defer wg.Done()
			if m.name != "PollEvent" {
				defer atomic.AddInt32(&othersLeft, -1)
			}
			defer func() {
				if e := recover(); e != nil {
					pan.Store(fmt.Sprintf("%s panicked: %v", m.name, e))
				}
			}()
			// a full redraw of the styled screen through the reference terminal costs ~100x a
			// cell update under the race detector: drawing loops run an eighth of the count
			n := j.Iters
			if m.name == "Sync" || m.name == "Show" {
				if n > 100 {
					n = max(100, n/8)
				}
			} else if n <= 200 {
				// cheap calls: long enough loops that the two goroutines really overlap; the
				// race on a value handed out by GetContent needs the reader to still be looking
				// when a later writer comes by, so those jobs run longer still
				n *= 8
				if usesResult {
					n *= 3
				}
			} else {
				n *= 4
			}
			for i := 0; i < n; i++ {
				m.f(s, i)
			}
			if m.name != "PollEvent" {
				// the loops end together: a cheap loop keeps going (beyond its count) until the
				// slowest one has done its share, so the goroutines overlap for the whole job
				atomic.AddInt32(&quotaLeft, -1)
				if m.name != "Sync" && m.name != "Show" {
					for i := n; atomic.LoadInt32(&quotaLeft) > 0; i++ {
						m.f(s, i)
						if i%8 == 0 {
							runtime.Gosched()
						}
					}
				}
			}
			if m.name == "PollEvent" {
				// the application under test keeps consuming events until its other goroutines
				// are done (a SimulationScreen holds Show/SetSize back while its queue is full)
				atomic.AddInt32(&pollersLeft, -1)
				for atomic.LoadInt32(&othersLeft) > 0 {
					if s.HasPendingEvent() {
						s.PollEvent()
					} else {
						runtime.Gosched()
					}
				}
			}
		}()
	}
	done := make(chan struct{})
	go func() { wg.Wait(); close(done) }()
	select {
	case <-done:
	case <-time.After(300 * time.Second):
		// the loops are still running and own every local: return a fresh value
		return c10out{Idx: j.Idx, Hung: true, Problem: "method loops did not finish within 300s (shutdown liveness is C06's)"}
	}
	atomic.StoreInt32(&stop, 1)
	bg.Wait()
	close(drainQuit)
	if p := pan.Load(); p != nil {
		out.Sig, out.Problem = "panic:"+strings.Join(j.Methods, "|"), p.(string)
		return
	}
	if !hasFini {
		fd := make(chan struct{})
		go func() {
			if !j.Sim && ft != nil {
				ft.BeginFini()
			}
			s.Fini()
			close(fd)
		}()
		select {
		case <-fd:
		case <-time.After(60 * time.Second):
			return c10out{Idx: j.Idx, Hung: true, Problem: "final Fini did not return within 60s (C06's)"}
		}
	}
	if e := termErr.Load(); e != nil {
		out.Sig, out.Problem = "output-corrupted:"+strings.Join(j.Methods, "|"), e.(string)
	}
	if e := evProblem.Load(); e != nil {
		out.Sig, out.Problem = "event-payload-changed:"+strings.Join(j.Methods, "|"), e.(string)
	}
	if term != nil {
		out.Controls = term.Controls
	}
	return
}

func tail(b []byte, n int) []byte {
	if len(b) > n {
		return b[len(b)-n:]
	}
	return b
}

// ---------------------------------------------------------------------------
// race report parsing

type raceReport struct {
	sig   string
	text  string
	tcell bool
}

var frameRe = regexp.MustCompile(`^  (\S+)\(`)

func parseRaceLog(text string) []raceReport {
	var out []raceReport
	for _, blk := range strings.Split(text, "==================") {
		if !strings.Contains(blk, "WARNING: DATA RACE") {
			continue
		}
		// the two access stacks: everything up to the first "Goroutine N (...) created at"
		body := blk
		if i := strings.Index(body, "\nGoroutine "); i >= 0 {
			body = body[:i]
		}
		var stacks [][]string
		var cur []string
		for _, line := range strings.Split(body, "\n") {
			switch {
			case strings.Contains(line, " by goroutine ") || strings.Contains(line, " by main goroutine"):
				if cur != nil {
					stacks = append(stacks, cur)
				}
				cur = []string{}
			case strings.TrimSpace(line) == "":
				if cur != nil {
					stacks = append(stacks, cur)
					cur = nil
				}
			default:
				if m := frameRe.FindStringSubmatch(line); m != nil && cur != nil {
					cur = append(cur, m[1])
				}
			}
		}
		if cur != nil {
			stacks = append(stacks, cur)
		}
		var entries []string
		isT := false
		// a report counts against tcell when both racing accesses happen on behalf of tcell
		// (a tcell frame on the stack: its own code, or a callback such as Tty.Read filling
		// the buffer tcell handed it), or when one does and the other is the application
		// using what a Screen method returned (c10useResult). A stack without any tcell
		// frame otherwise is the harness racing with itself.
		tcellAccesses := 0
		for _, st := range stacks {
			for i, f := range st {
				if strings.HasPrefix(f, "github.com/gdamore/tcell/v2.") {
					tcellAccesses++
					break
				}
				if i < 3 && (strings.HasPrefix(f, "verif/props.c10useResult") || strings.HasPrefix(f, "verif/props.c10useEvent")) {
					tcellAccesses++
					break
				}
			}
		}
		for _, st := range stacks {
			outer := ""
			for _, f := range st { // innermost first; keep the last (outermost) tcell frame
				if strings.HasPrefix(f, "github.com/gdamore/tcell/v2.") {
					outer = strings.TrimPrefix(f, "github.com/gdamore/tcell/v2.")
					isT = true
				}
			}
			if outer == "" && len(st) > 0 {
				outer = "(harness)" + st[0]
			}
			entries = append(entries, outer)
		}
		sort.Strings(entries)
		out = append(out, raceReport{sig: strings.Join(entries, " | "), text: strings.TrimSpace(blk), tcell: isT && tcellAccesses == len(stacks) && len(stacks) >= 2})
	}
	return out
}

// ---------------------------------------------------------------------------

func C10(r *core.Run) {
	if os.Getenv("VERIF_C10_WORKER") != "" {
		c10worker()
		os.Exit(0)
	}
	r.Rule = "Go race detector (build -race, halt_on_error=0, reports to per-worker log files) over concurrent use of one Screen: for every unordered pair (self-pairs included) of 37 Screen methods on a live terminfo screen over the fake tty, and of the 36 applicable ones on a SimulationScreen, two goroutines call the methods in tight loops with small argument variation while the library's own goroutines are kept busy (input feeder, resize notifications, event drain); seeded larger method sets in thorough. Reports are parsed from the logs, cut at the goroutine-creation trailer, reduced to the pair of outermost tcell entry points and de-duplicated; every Write block must end with the reference terminal's tokenizer in ground state and the whole output must be well formed; panics and runtime fatal errors are violations. non-trivial = a pair run to completion; distinct = distinct method set."
	r.Assumptions = []string{"the detector only sees races on executed paths inside its history window: 'no race observed in N pair-runs'", "PollEvent and ChannelEvents are never run together (the API forbids it)", "Suspend/Resume cycles and Fini are paired with every other method but not with each other: their mutual order is the application's responsibility", "a pair whose process hangs is reported by C06's monitor, not here"}
	methods := c10methods()
	iters := r.Pick(100, 4000)
	var jobs []c10job
	add := func(ms []string, sim bool) {
		// lifecycle calls are sequenced by the application (Resume follows a completed
		// Suspend, nothing follows Fini): they are paired with every other method but
		// not with each other
		life := 0
		for _, m := range ms {
			if m == "SuspendResume" || m == "Fini" {
				life++
			}
		}
		if life > 1 && !(len(ms) == 2 && ms[0] == ms[1]) {
			// the same lifecycle call from two goroutines at once is allowed (two Fini, two
			// Suspend/Resume loops): nothing is sequenced wrongly, each call is legal on its own
			return
		}
		jobs = append(jobs, c10job{Idx: len(jobs), Methods: ms, Sim: sim, Iters: iters})
		usesEncoder := false
		for _, m := range ms {
			if m == "CanDisplay" || m == "Show" || m == "Sync" {
				usesEncoder = true
			}
		}
		if usesEncoder && !sim && len(ms) == 2 {
			// a locale whose codec keeps state in the encoder object (GB2312 is registered as
			// HZ-GB2312) and a plain 8-bit one: the screen has one encoder for all callers
			for _, env := range []string{"LC_ALL=zh_CN.GB2312", "LC_ALL=ru_RU.KOI8-R"} {
				if env == "LC_ALL=ru_RU.KOI8-R" && !(ms[0] == "CanDisplay" || ms[1] == "CanDisplay") {
					continue
				}
				jobs = append(jobs, c10job{Idx: len(jobs), Methods: ms, Sim: sim, Iters: iters, Env: env})
			}
		}
		if life > 0 && !sim && len(ms) == 2 {
			// Init and Resume read the environment: the lifecycle pairs also run under each setting
			for _, env := range []string{"TCELL_TRUECOLOR=disable", "COLORTERM=truecolor", "TCELL_ALTSCREEN=disable"} {
				jobs = append(jobs, c10job{Idx: len(jobs), Methods: ms, Sim: sim, Iters: iters, Env: env})
			}
		}
	}
	for i, a := range methods {
		for k := i; k < len(methods); k++ {
			b := methods[k]
			add([]string{a.name, b.name}, false)
			if a.sim && b.sim {
				add([]string{a.name, b.name}, true)
			}
		}
	}
	// the library's own terminal driver (devTty on a pseudo terminal): lifecycle calls against the
	// calls that write to or query the terminal
	for _, m := range []string{"Show", "Sync", "Beep", "SetTitle", "SetContent", "EnableMouse", "SetCursorStyle", "Size", "SetSize", "SetClipboard", "HasPendingEvent", "Clear"} {
		jobs = append(jobs, c10job{Idx: len(jobs), Methods: []string{"SuspendResume", m}, Iters: iters, Pty: true})
	}
	jobs = append(jobs, c10job{Idx: len(jobs), Methods: []string{"Show", "Fini"}, Iters: iters, Pty: true}, c10job{Idx: len(jobs) + 1, Methods: []string{"Show", "SetSize", "Beep"}, Iters: iters, Pty: true})
	nsets := r.Pick(40, 500)
	for i := 0; i < nsets; i++ {
		rg := r.Rand("set", i)
		n := 3 + rg.IntN(3)
		var ms []string
		for len(ms) < n {
			ms = append(ms, methods[rg.IntN(len(methods))].name)
		}
		add(ms, rg.IntN(4) == 0)
	}
	r.Set("jobs", len(jobs))
	self, _ := os.Executable()
	logDir := filepath.Join(core.VerifDir(), "replays")
	_ = os.MkdirAll(logDir, 0o755)
	old, _ := filepath.Glob(filepath.Join(logDir, "C10w-race.*"))
	for _, f := range old {
		_ = os.Remove(f)
	}
	var mu sync.Mutex
	next := 0
	var wg sync.WaitGroup
	var blocks, controls int64
	for w := 0; w < runtime.GOMAXPROCS(0); w++ {
		wg.Add(1)
		go func(w int) {
			defer wg.Done()
			for {
				mu.Lock()
				if next >= len(jobs) {
					mu.Unlock()
					return
				}
				from := next
				to := min(from+12, len(jobs))
				next = to
				mu.Unlock()
				for from < to {
					outs, crash := c10spawn(self, jobs[from:to], filepath.Join(logDir, "C10w-race"))
					for _, o := range outs {
						jb := jobs[o.Idx]
						key := strings.Join(jb.Methods, "|") + fmt.Sprint(jb.Sim)
						atomic.AddInt64(&blocks, int64(o.Blocks))
						atomic.AddInt64(&controls, int64(o.Controls))
						switch {
						case o.Hung:
							r.Case("")
							r.Inconclusive(fmt.Sprintf("%v sim=%v: %s", jb.Methods, jb.Sim, o.Problem))
						case o.Sig != "":
							r.Case(key)
							r.Violate(o.Sig+simTag(jb.Sim), fmt.Sprintf("%v sim=%v: %s", jb.Methods, jb.Sim, o.Problem), jb)
						case o.Problem != "":
							r.Case("")
							r.Inconclusive(o.Problem)
						default:
							r.Case(key)
						}
					}
					from += len(outs)
					if crash != "" && from < to {
						jb := jobs[from]
						r.Case(strings.Join(jb.Methods, "|") + fmt.Sprint(jb.Sim))
						first := crash
						for _, l := range strings.Split(crash, "\n") {
							if strings.HasPrefix(l, "fatal error:") || strings.HasPrefix(l, "panic:") {
								first = l
								break
							}
						}
						r.Violate("runtime-fault:"+strings.Join(jb.Methods, "|")+simTag(jb.Sim), fmt.Sprintf("the process died while %v ran concurrently (sim=%v): %s", jb.Methods, jb.Sim, short(first, 300)), map[string]any{"job": jb, "output": short(crash, 3000)})
						from++
					}
				}
			}
		}(w)
	}
	wg.Wait()
	r.Count("write_blocks_checked", blocks)
	r.Count("controls_tokenized", controls)
	// race reports
	logs, _ := filepath.Glob(filepath.Join(logDir, "C10w-race.*"))
	total := 0
	bySig := map[string]int{}
	example := map[string]string{}
	for _, f := range logs {
		b, err := os.ReadFile(f)
		if err != nil {
			continue
		}
		for _, rep := range parseRaceLog(string(b)) {
			total++
			if !rep.tcell {
				bySig["(harness only) "+rep.sig]++
				continue
			}
			bySig[rep.sig]++
			if example[rep.sig] == "" {
				example[rep.sig] = rep.text
			}
		}
	}
	r.Count("race_reports_total", int64(total))
	r.Set("distinct_race_signatures", len(example))
	var sigs []string
	for s := range example {
		sigs = append(sigs, s)
	}
	sort.Strings(sigs)
	for _, s := range sigs {
		r.Violate("race:"+s, fmt.Sprintf("data race between %s (%d report(s)); first report:\n%s", s, bySig[s], short(example[s], 2500)), map[string]any{"report": example[s]})
	}
	for s, n := range bySig {
		if strings.HasPrefix(s, "(harness only)") {
			r.Inconclusive(fmt.Sprintf("%d race report(s) without a tcell frame: %s", n, s))
		}
	}
	r.Sample(5, map[string]any{"kind": "pair", "methods": jobs[0].Methods, "iterations_each": iters, "library_goroutines": "input feeder + resize notifier + event drain"})
	r.Sample(5, map[string]any{"kind": "method set", "methods": jobs[len(jobs)-1].Methods, "sim": jobs[len(jobs)-1].Sim})
}

func simTag(sim bool) string {
	if sim {
		return "@sim"
	}
	return ""
}

func c10spawn(self string, batch []c10job, logPath string) ([]c10out, string) {
	b, _ := json.Marshal(batch)
	cmd := exec.Command(self, "C10")
	env := os.Environ()
	var e2 []string
	for _, e := range env {
		if !strings.HasPrefix(e, "GORACE=") {
			e2 = append(e2, e)
		}
	}
	cmd.Env = append(e2, "VERIF_C10_WORKER=1", "GORACE=halt_on_error=0 exitcode=0 history_size=3 log_path="+logPath)
	cmd.Stdin = strings.NewReader(string(b))
	var errb strings.Builder
	cmd.Stderr = &errb
	so, err := cmd.StdoutPipe()
	if err != nil {
		return nil, err.Error()
	}
	if err := cmd.Start(); err != nil {
		return nil, err.Error()
	}
	var outs []c10out
	sc := bufio.NewScanner(so)
	sc.Buffer(make([]byte, 1<<20), 1<<24)
	for sc.Scan() {
		if l := sc.Text(); strings.HasPrefix(l, "RESULT ") {
			var o c10out
			if json.Unmarshal([]byte(l[7:]), &o) == nil {
				outs = append(outs, o)
			}
		}
	}
	werr := cmd.Wait()
	if len(outs) < len(batch) {
		if len(outs) > 0 && outs[len(outs)-1].Hung {
			return outs, ""
		}
		return outs, fmt.Sprintf("%v\n%s", werr, errb.String())
	}
	return outs, ""
}

func c10worker() {
	var batch []c10job
	if err := json.NewDecoder(os.Stdin).Decode(&batch); err != nil {
		os.Exit(3)
	}
	for _, j := range batch {
		fmt.Printf("START %d %v\n", j.Idx, j.Methods)
		o := c10runJob(j)
		b, _ := json.Marshal(o)
		fmt.Printf("RESULT %s\n", b)
		if o.Hung {
			os.Exit(0)
		}
	}
}
