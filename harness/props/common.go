package props

import (
	"fmt"
	"reflect"
	"sort"
	"strings"
	"sync"

	"github.com/gdamore/tcell/v2/terminfo"
	_ "github.com/gdamore/tcell/v2/terminfo/base"
	_ "github.com/gdamore/tcell/v2/terminfo/extended"
)

var (
	snapOnce sync.Once
	snapMap  map[string]*terminfo.Terminfo // name/alias -> pristine deep copy (aliases share)
	snapList []*terminfo.Terminfo          // unique entries sorted by Name (pristine copies)
)

// CopyTI returns a deep copy of a Terminfo.
func CopyTI(t *terminfo.Terminfo) *terminfo.Terminfo {
	c := *t
	c.Aliases = append([]string(nil), t.Aliases...)
	return &c
}

// snapshot takes a pristine deep copy of the registry the first time it is
// called (before any lookup has had a chance to modify an entry).
func snapshot() {
	snapOnce.Do(func() {
		reg := terminfo.VerifEntries()
		byPtr := map[*terminfo.Terminfo]*terminfo.Terminfo{}
		snapMap = map[string]*terminfo.Terminfo{}
		for k, v := range reg {
			c, ok := byPtr[v]
			if !ok {
				c = CopyTI(v)
				byPtr[v] = c
				snapList = append(snapList, c)
			}
			snapMap[k] = c
		}
		sort.Slice(snapList, func(i, j int) bool { return snapList[i].Name < snapList[j].Name })
	})
}

// RestoreRegistry puts fresh deep copies of the pristine entries back into
// tcell's registry (alias structure preserved).
func RestoreRegistry() {
	snapshot()
	byPtr := map[*terminfo.Terminfo]*terminfo.Terminfo{}
	m := map[string]*terminfo.Terminfo{}
	for k, v := range snapMap {
		c, ok := byPtr[v]
		if !ok {
			c = CopyTI(v)
			byPtr[v] = c
		}
		m[k] = c
	}
	terminfo.VerifSetEntries(m)
}

// RegistryNames returns every registered name and alias, sorted.
func RegistryNames() []string {
	snapshot()
	var ks []string
	for k := range snapMap {
		ks = append(ks, k)
	}
	sort.Strings(ks)
	return ks
}

// Pristine returns a fresh private deep copy of the named entry (as
// registered, untouched by lookups), or nil.
func Pristine(name string) *terminfo.Terminfo {
	snapshot()
	if t, ok := snapMap[name]; ok {
		return CopyTI(t)
	}
	return nil
}

// AllEntries returns fresh private copies of all distinct entries.
func AllEntries() []*terminfo.Terminfo {
	snapshot()
	out := make([]*terminfo.Terminfo, len(snapList))
	for i, t := range snapList {
		out[i] = CopyTI(t)
	}
	return out
}

var nonECMA = map[string]bool{"vt52": true, "wy50": true, "wy60": true, "hpterm": true}

// ECMAEntries returns the ECMA-48-family entries (all but vt52, wy50, wy60, hpterm).
func ECMAEntries() []*terminfo.Terminfo {
	var out []*terminfo.Terminfo
	for _, t := range AllEntries() {
		if !nonECMA[t.Name] {
			out = append(out, t)
		}
	}
	return out
}

// StringFields returns the names and values of all string fields of a Terminfo.
func StringFields(t *terminfo.Terminfo) map[string]string {
	m := map[string]string{}
	v := reflect.ValueOf(t).Elem()
	for i := 0; i < v.NumField(); i++ {
		f := v.Type().Field(i)
		if f.Type.Kind() == reflect.String {
			m[f.Name] = v.Field(i).String()
		}
	}
	return m
}

func q(b []byte) string { return fmt.Sprintf("%q", b) }

func short(s string, n int) string {
	if len(s) > n {
		return s[:n] + "…"
	}
	return s
}

func hasPrefixAny(s string, ps ...string) bool {
	for _, p := range ps {
		if strings.HasPrefix(s, p) {
			return true
		}
	}
	return false
}
