package props

import (
	"fmt"
	"math/rand/v2"
	"os"
	"runtime"
	"strings"
	"sync"
	"sync/atomic"
	"time"

	"github.com/gdamore/tcell/v2"

	"verif/core"
	"verif/faketty"
	"verif/shadow"
	"verif/vt"
)

func init() { register("C04", C04) }

type c04op struct {
	K     string
	Flags int
	On    bool
	CS    int
	CC    tcell.Color
	HasCC bool
	S     string
	X, Y  int
	R     rune
	Sp    shadow.Spec
}

func (o c04op) String() string {
	switch o.K {
	case "mouse":
		if o.Flags == 8 {
			return "EnableMouse(MouseFlags(0))"
		}
		return fmt.Sprintf("EnableMouse(%d)", o.Flags)
	case "paste", "focus":
		return fmt.Sprintf("%s(%v)", o.K, o.On)
	case "cstyle":
		if o.HasCC {
			return fmt.Sprintf("SetCursorStyle(%d,%s)", o.CS, colName(o.CC))
		}
		return fmt.Sprintf("SetCursorStyle(%d)", o.CS)
	case "title":
		return fmt.Sprintf("SetTitle(%q)", o.S)
	case "cursor":
		return fmt.Sprintf("ShowCursor(%d,%d)", o.X, o.Y)
	case "set":
		return fmt.Sprintf("set(%d,%d,%U,%s)", o.X, o.Y, o.R, o.Sp.Short())
	case "winsize":
		return fmt.Sprintf("window-size(%dx%d)+show", o.X, o.Y)
	}
	return o.K
}

func c04gen(rg *rand.Rand) []c04op {
	n := 8 + rg.IntN(40)
	var ops []c04op
	susp := false
	for i := 0; i < n; i++ {
		if susp {
			// between Suspend and Resume the application leaves the screen alone,
			// except for mode requests, which must be remembered
			switch rg.IntN(6) {
			case 0:
				ops = append(ops, c04op{K: "paste", On: rg.IntN(2) == 0})
			case 1:
				ops = append(ops, c04op{K: "focus", On: rg.IntN(2) == 0})
			default:
				ops = append(ops, c04op{K: "resume"})
				susp = false
			}
			continue
		}
		switch k := rg.IntN(100); {
		case k < 12:
			ops = append(ops, c04op{K: "mouse", Flags: rg.IntN(9)}) // 0: no argument (everything), 8: the explicit empty set MouseFlags(0)
		case k < 16:
			ops = append(ops, c04op{K: "nomouse"})
		case k < 24:
			ops = append(ops, c04op{K: "paste", On: rg.IntN(2) == 0})
		case k < 32:
			ops = append(ops, c04op{K: "focus", On: rg.IntN(2) == 0})
		case k < 42:
			o := c04op{K: "cstyle", CS: rg.IntN(7)}
			if rg.IntN(2) == 0 {
				o.HasCC = true
				o.CC = []tcell.Color{tcell.ColorReset, tcell.NewRGBColor(200, 10, int32(rg.IntN(256))), tcell.ColorRed, tcell.ColorDefault}[rg.IntN(4)]
			}
			ops = append(ops, o)
		case k < 50:
			ops = append(ops, c04op{K: "title", S: []string{"", "t1", "my title", "x"}[rg.IntN(4)]})
		case k < 58:
			ops = append(ops, c04op{K: "cursor", X: rg.IntN(14) - 2, Y: rg.IntN(6) - 1})
		case k < 76:
			r := shadow.RunesNarrow[rg.IntN(len(shadow.RunesNarrow))]
			if rg.IntN(4) == 0 {
				r = shadow.RunesWide[rg.IntN(len(shadow.RunesWide))]
			}
			ops = append(ops, c04op{K: "set", X: rg.IntN(10), Y: rg.IntN(4), R: r, Sp: shadow.GenSpec(rg, true)})
		case k < 88:
			ops = append(ops, c04op{K: "show"})
		case k < 90:
			// the terminal reports a window of no columns or rows (ssh/pty without a size), or a real one again
			ops = append(ops, c04op{K: "winsize", X: []int{0, 0, 10, 0, 10}[rg.IntN(5)], Y: []int{0, 4, 0, 4, 4}[rg.IntN(5)]})
		default:
			ops = append(ops, c04op{K: "suspend"})
			susp = true
		}
	}
	if susp {
		if rg.IntN(2) == 0 {
			return ops // ends suspended
		}
		ops = append(ops, c04op{K: "resume"})
	}
	if rg.IntN(3) == 0 {
		ops = append(ops, c04op{K: "show"}, c04op{K: "suspend"})
	} else {
		ops = append(ops, c04op{K: "show"}, c04op{K: "fini"})
	}
	return ops
}

type c04cfg struct {
	se            *session
	altOff        bool
	drainNil      bool
	resizeInDrain bool
	readErr       bool // the first Read of the first engagement fails
	windowCall    bool // another goroutine of the application enables the modes while a shutdown is in progress
	windowFini    bool // another goroutine calls Fini while the last Suspend of the history is in progress
}

// c04exec runs one history; returns category and description of the first violation.
func c04exec(cfg c04cfg, ops []c04op, edges map[string]int) (cat, what string) {
	se := cfg.se
	const W, H = 10, 4
	term := vt.New(W, H)
	term.FFClears = strings.HasPrefix(se.name, "sun")
	term.Acs = vt.BuildAcs(se.ti.AltChars)
	term.Title = "orig-title"
	ft := faketty.New(W, H)
	ft.DrainReturnsNil = cfg.drainNil
	if cfg.readErr {
		ft.ReadErrAt = 1
	}
	ft.OnWrite = func(b []byte) { term.Feed(b) }
	if cfg.resizeInDrain {
		// the terminal reports a new size just as the screen is shutting down
		flip := false
		ft.OnDrain = func(t *faketty.Tty) {
			flip = !flip
			nw, nh := W+1, H+1
			if !flip {
				nw, nh = W, H
			}
			term.Resize(nw, nh)
			t.ResizeLocked(nw, nh)
		}
	}
	s, err := tcell.NewTerminfoScreenFromTtyTerminfo(ft, CopyTI(se.ti))
	if err != nil {
		return "harness", err.Error()
	}
	app := func(f func()) bool {
		done := make(chan struct{})
		go func() {
			ft.BeginApp()
			f()
			ft.EndApp()
			close(done)
		}()
		select {
		case <-done:
			return true
		case <-time.After(30 * time.Second):
			return false
		}
	}
	if !app(func() { err = s.Init() }) || err != nil {
		return "harness", fmt.Sprintf("Init: %v", err)
	}
	ti := se.ti
	hasMouse := ti.Mouse != ""
	hasPaste := tiHasPaste(ti)
	hasFocus := !strings.Contains(ti.Name, "linux") && (ti.Mouse != "" || se.xtermlike || ti.EnableFocusReporting != "")
	hasTitleStack := ti.SetWindowTitle == "" && se.xtermlike && !strings.Contains(ti.Name, "linux")
	hasCursorStyle := ti.CursorDefault != "" || ti.Mouse != "" || se.xtermlike
	mouse, paste, focus := 0, false, false
	styleChanged, colourChanged := false, false
	running := true
	finished := false

	quiescent0 := func(when string, ttyErrs []string) (string, string) {
		var probs []string
		bad := func(reg, f string, a ...any) {
			probs = append(probs, reg+"\x00"+fmt.Sprintf(f, a...))
		}
		if len(term.Errors) > 0 {
			return "", "" // grammar errors are C09's
		}
		if term.Alt {
			bad("alt-screen", "still on the alternate screen")
		}
		if cfg.altOff && len(term.TitleStack) != 0 {
			bad("title-stack", "title pushed although TCELL_ALTSCREEN=disable")
		}
		if ti.ShowCursor != "" && !term.CursorVis {
			bad("cursor-visible", "cursor left hidden")
		}
		if hasCursorStyle && styleChanged {
			if def, ok := se.cursorStyleCode(0); ok && term.CursorStyle != def && term.CursorStyle != -1 {
				bad("cursor-shape", "cursor shape left at DECSCUSR %d (default is %d)", term.CursorStyle, def)
			}
		}
		if colourChanged && term.CursorColor != "" {
			bad("cursor-colour", "cursor colour left at %q", term.CursorColor)
		}
		p := term.Pen
		p.Url, p.UrlID = "", ""
		defPen := vt.Pen{}
		if se.ti.Colors > 0 && se.ti.ResetFgBg != "" {
			// "op" may spell default as explicit colours (aixterm, pcansi...)
			if p.Fg == se.aliasFg {
				p.Fg = vt.Col{}
			}
			if p.Bg == se.aliasBg {
				p.Bg = vt.Col{}
			}
		}
		if p != defPen {
			bad("sgr", "colours/attributes not reset: %+v", p)
		}
		if term.G[0] != 'B' || term.Shift != 0 || term.AltFont {
			bad("charset", "alternate character set left selected (G0=%c shift=%d altfont=%v)", term.G[0], term.Shift, term.AltFont)
		}
		if term.Modes[1] || term.KeypadApp {
			bad("keypad", "keypad-application / cursor-key mode left on (DECCKM=%v keypad=%v)", term.Modes[1], term.KeypadApp)
		}
		for _, md := range []int{1000, 1002, 1003, 1006} {
			if term.Modes[md] {
				bad("mouse", "mouse mode %d left on", md)
			}
		}
		if term.Modes[2004] {
			bad("paste", "bracketed paste left on")
		}
		if term.Modes[1004] {
			bad("focus", "focus reporting left on")
		}
		if !term.Modes[7] {
			bad("auto-margin", "auto-margin (DECAWM) left off")
		}
		if hasTitleStack && !cfg.altOff {
			if term.Title != "orig-title" || len(term.TitleStack) != 0 {
				bad("title", "window title is %q (stack depth %d), was %q before Init", term.Title, len(term.TitleStack), "orig-title")
			}
		}
		if errs := ttyErrs; len(errs) > 0 {
			bad("tty-contract", "%s", errs[0])
		}
		if len(probs) > 0 {
			parts := strings.SplitN(probs[0], "\x00", 2)
			return when + ":" + parts[0], parts[1]
		}
		return "", ""
	}
	resumed0 := func(ttyErrs []string) (string, string) {
		if len(term.Errors) > 0 {
			return "", ""
		}
		var probs []string
		bad := func(reg, f string, a ...any) { probs = append(probs, reg+"\x00"+fmt.Sprintf(f, a...)) }
		if ti.EnterCA != "" && !cfg.altOff && strings.Contains(ti.EnterCA, "1049") && !term.Alt {
			bad("alt-screen", "not on the alternate screen after Resume")
		}
		if strings.Contains(ti.EnterKeypad, "\x1b=") && !term.KeypadApp {
			bad("keypad", "keypad mode not re-enabled after Resume")
		}
		if hasMouse {
			want := map[int]bool{1000: mouse&1 != 0, 1002: mouse&2 != 0, 1003: mouse&4 != 0, 1006: mouse&7 != 0}
			for md, w := range want {
				if term.Modes[md] != w {
					bad("mouse", "after Resume mouse mode %d is %v, the application's flags %d want %v", md, term.Modes[md], mouse, w)
				}
			}
		}
		if hasPaste && term.Modes[2004] != paste {
			bad("paste", "after Resume bracketed paste is %v, the application wants %v", term.Modes[2004], paste)
		}
		if hasFocus && term.Modes[1004] != focus {
			bad("focus", "after Resume focus reporting is %v, the application wants %v", term.Modes[1004], focus)
		}
		if errs := ttyErrs; len(errs) > 0 {
			bad("tty-contract", "%s", errs[0])
		}
		if len(probs) > 0 {
			parts := strings.SplitN(probs[0], "\x00", 2)
			return "resume:" + parts[0], parts[1]
		}
		return "", ""
	}
	// the emulator is fed from Tty.Write under the tty lock; judge it under the same lock
	// (a resize processed by the main loop may still be drawing when Resume has returned)
	quiescent := func(when string) (a, b string) {
		errs, _, _ := ft.Snapshot()
		ft.Locked(func() { a, b = quiescent0(when, errs) })
		return
	}
	resumed := func() (a, b string) {
		errs, _, _ := ft.Snapshot()
		ft.Locked(func() { a, b = resumed0(errs) })
		return
	}
	defer func() {
		if !finished {
			app(func() { ft.BeginFini(); s.Fini() })
		}
		if edges != nil {
			_, e, _ := ft.Snapshot()
			for k, v := range e {
				edges[k] += v
			}
		}
	}()
	if cfg.windowCall && hasMouse {
		fired := false
		ft.OnNotifyNil = func() {
			if fired {
				return
			}
			fired = true
			// what a second application goroutine does when it gets the screen lock in the
			// unlocked window of Suspend/Fini; it counts as the application's latest request
			ft.BeginApp()
			s.EnableMouse()
			s.EnablePaste()
			s.EnableFocus()
			ft.EndApp()
			mouse, paste, focus = 7, true, true
		}
	}
	for oi, o := range ops {
		ok := true
		switch o.K {
		case "mouse":
			var fl []tcell.MouseFlags
			for b := 0; b < 3; b++ {
				if o.Flags&(1<<b) != 0 {
					fl = append(fl, tcell.MouseFlags(1<<b))
				}
			}
			if o.Flags == 8 {
				fl = []tcell.MouseFlags{0}
			}
			ok = app(func() { s.EnableMouse(fl...) })
			mouse = o.Flags
			if len(fl) == 0 {
				mouse = 7
			}
			if o.Flags == 8 {
				mouse = 0 // an explicit empty flag set asks for no reports
			}
		case "nomouse":
			ok = app(func() { s.DisableMouse() })
			mouse = 0
		case "paste":
			paste = o.On
			if o.On {
				ok = app(func() { s.EnablePaste() })
			} else {
				ok = app(func() { s.DisablePaste() })
			}
		case "focus":
			focus = o.On
			if o.On {
				ok = app(func() { s.EnableFocus() })
			} else {
				ok = app(func() { s.DisableFocus() })
			}
		case "cstyle":
			styleChanged = true
			if o.HasCC {
				colourChanged = true
				ok = app(func() { s.SetCursorStyle(tcell.CursorStyle(o.CS), o.CC) })
			} else {
				ok = app(func() { s.SetCursorStyle(tcell.CursorStyle(o.CS)) })
			}
		case "title":
			ok = app(func() { s.SetTitle(o.S) })
		case "cursor":
			ok = app(func() { s.ShowCursor(o.X, o.Y) })
		case "set":
			ok = app(func() { s.SetContent(o.X, o.Y, o.R, nil, o.Sp.Style()) })
		case "show":
			ok = app(func() { s.Show() })
		case "winsize":
			ft.Locked(func() {
				if o.X > 0 && o.Y > 0 {
					term.Resize(o.X, o.Y)
				}
			})
			ft.SetSize(o.X, o.Y)
			ft.NotifyNow()
			ok = app(func() { s.Show() })
		case "suspend":
			var e error
			var finiDone chan struct{}
			if cfg.windowFini && oi == len(ops)-1 {
				finiDone = make(chan struct{})
				started := false
				ft.OnNotifyNil = func() {
					if started {
						return
					}
					started = true
					go func() {
						defer close(finiDone)
						ft.BeginApp()
						ft.BeginFini()
						s.Fini()
						ft.EndApp()
					}()
					// let the other call get as far as it can: finished, or waiting for this Suspend
					for i := 0; i < 3000; i++ {
						select {
						case <-finiDone:
							return
						default:
							runtime.Gosched()
						}
					}
				}
			}
			ok = app(func() { e = s.Suspend() })
			if ok && finiDone != nil {
				select {
				case <-finiDone:
					finished = true
				case <-time.After(30 * time.Second):
					ok = false
				}
				ft.OnNotifyNil = nil
			}
			if ok && e != nil {
				return "suspend:error", e.Error()
			}
			running = false
			if ok {
				if c, w := quiescent("suspend"); c != "" {
					return c, w
				}
			}
		case "resume":
			var e error
			ok = app(func() { e = s.Resume() })
			if ok && e != nil {
				return "resume:error", e.Error()
			}
			running = true
			if ok {
				if c, w := resumed(); c != "" {
					return c, w
				}
			}
		case "fini":
			ok = app(func() { ft.BeginFini(); s.Fini() })
			finished = true
			if ok {
				if c, w := quiescent("fini"); c != "" {
					return c, w
				}
				_, _, closes := ft.Counts()
				if closes != 1 {
					return "fini:tty-contract", fmt.Sprintf("Close called %d times", closes)
				}
				if ft.State() != faketty.StClosed {
					return "fini:tty-contract", "tty not closed after Fini"
				}
			}
		}
		if !ok {
			return "INCONCLUSIVE", o.K + " did not return within 30s (shutdown liveness is C06's)"
		}
	}
	_ = running
	return "", ""
}

func C04(r *core.Run) {
	r.Rule = "seeded histories of EnableMouse(flag sets, none, the explicit empty set)/DisableMouse/EnablePaste/DisablePaste/EnableFocus/DisableFocus/SetCursorStyle/SetTitle/ShowCursor/SetContent/Show/Suspend/Resume ending in Fini or Suspend, on a real terminfo screen over the instrumented fake tty; the reference terminal interprets every byte; at the return of every Suspend and of Fini its registers are compared with the reset vector, after every Resume with the application's enabled modes; the fake tty's call-order automaton runs on every call. Configurations: all 45 ECMA-48-family entries x TCELL_ALTSCREEN {unset, disable, one other value (Disable, DISABLE, enable, disabled by seed)} x both Drain personalities. non-trivial = a history with at least one Suspend->Resume cycle or mode change before shutdown; distinct = distinct (configuration, history)."
	r.Assumptions = []string{"only capabilities the entry has are demanded", "the hyperlink register is not part of the reset vector (the statement lists colours and attributes)", "colours set by a non-39;49 'op' string count as default", "between Suspend and Resume the application only issues mode requests"}
	nh := r.Pick(60, 1500)
	var mu sync.Mutex
	edges := map[string]int{}
	seenCat := map[string]int{}
	var hangs int32
	// the third configuration is a value of TCELL_ALTSCREEN that is not "disable": start-up and
	// shutdown have to read it the same way (a third as many histories)
	for ci, altEnv := range []string{"", "disable", []string{"Disable", "DISABLE", "enable", "disabled"}[r.Seed%4]} {
		altOff := altEnv == "disable"
		nh := nh
		if ci == 2 {
			nh = (nh + 2) / 3
		}
		if altEnv != "" {
			os.Setenv("TCELL_ALTSCREEN", altEnv)
		} else {
			os.Unsetenv("TCELL_ALTSCREEN")
		}
		sessions := sessionsFor("asis")
		core.Parallel(len(sessions), func(si int) {
			se := sessions[si]
			led := map[string]int{}
			for hi := 0; hi < nh; hi++ {
				if atomic.LoadInt32(&hangs) >= 8 {
					return // every hung shutdown costs 30 s and leaks its goroutines: stop exploring
				}
				rg := r.Rand("h", se.name, altOff, hi)
				if ci == 2 {
					rg = r.Rand("h", se.name, altEnv, hi)
				}
				ops := c04gen(rg)
				cfg := c04cfg{se: se, altOff: altOff, drainNil: hi%2 == 1, resizeInDrain: hi%3 == 2, readErr: hi%5 == 4, windowCall: hi%7 == 3, windowFini: hi%11 == 5}
				cat, what := c04exec(cfg, ops, led)
				nt := false
				for _, o := range ops {
					if o.K == "resume" || o.K == "mouse" || o.K == "paste" || o.K == "focus" || o.K == "cstyle" || o.K == "title" {
						nt = true
					}
				}
				if nt {
					r.Case(fmt.Sprintf("%s|%v|%d", se.name, altEnv, hi))
				} else {
					r.Case("")
				}
				if cat == "INCONCLUSIVE" {
					atomic.AddInt32(&hangs, 1)
					r.Inconclusive(se.name + ": " + what)
					continue
				}
				if cat != "" {
					mu.Lock()
					seenCat[cat+"|"+c04family(se)]++
					nth := seenCat[cat+"|"+c04family(se)]
					mu.Unlock()
					if nth > 2 {
						r.Violate(cat+"|"+c04family(se), "", nil)
						continue
					}
					// shrink (bounded: a schedule-dependent violation may not reproduce)
					for changed, rounds := true, 0; changed && rounds < 3; rounds++ {
						changed = false
						for k := 0; k < len(ops)-1; k++ {
							cand := append(append([]c04op{}, ops[:k]...), ops[k+1:]...)
							if !c04valid(cand) {
								continue
							}
							if c2, w2 := c04exec(cfg, cand, nil); c2 == cat {
								ops, what, changed = cand, w2, true
								k--
							}
						}
					}
					var ss []string
					for _, o := range ops {
						ss = append(ss, o.String())
					}
					alt := "altscreen"
					if altEnv != "" {
						alt = "TCELL_ALTSCREEN=" + altEnv
					}
					r.Violate(cat+"|"+c04family(se), fmt.Sprintf("%s (%s, drainNil=%v, resize notification during Drain=%v, first Read fails=%v, modes enabled from another goroutine during the shutdown=%v, Fini from another goroutine during the last Suspend=%v): %s :: history: %s", se.name, alt, cfg.drainNil, cfg.resizeInDrain, cfg.readErr, cfg.windowCall, cfg.windowFini, what, strings.Join(ss, " ")), map[string]any{"entry": se.name, "altscreen_disabled": altOff, "ops": ss})
				}
				if si == 0 && hi < 2 && !altOff {
					var ss []string
					for _, o := range ops {
						ss = append(ss, o.String())
					}
					r.Sample(4, map[string]any{"entry": se.name, "ops": strings.Join(ss, " ")})
				}
			}
			mu.Lock()
			for k, v := range led {
				edges[k] += v
			}
			mu.Unlock()
		})
	}
	os.Unsetenv("TCELL_ALTSCREEN")
	r.Set("tty_automaton_edges_taken", edges)
	if edges["Draining-Stop->Stopped"] == 0 || edges["Stopped-Start->Running"] < 2 || edges["Stopped-Close->Closed"] == 0 {
		r.Inconclusive("the tty automaton never took one of Draining->Stopped, a second Stopped->Running (Resume), Stopped->Closed")
		r.MinDistinct = 1 << 60
	}
}

// c04valid: suspend/resume stay properly nested after dropping an operation.
func c04valid(ops []c04op) bool {
	susp := false
	for _, o := range ops {
		switch o.K {
		case "suspend":
			if susp {
				return false
			}
			susp = true
		case "resume":
			if !susp {
				return false
			}
			susp = false
		case "paste", "focus":
		default:
			if susp {
				return false
			}
		}
	}
	return true
}

func c04family(se *session) string {
	switch {
	case se.xtermlike:
		return "xterm-like"
	case se.ti.Mouse != "":
		return "mouse-capable"
	}
	return "plain"
}
