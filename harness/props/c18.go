package props

import (
	"fmt"
	"math/rand/v2"
	"strings"
	"time"

	"github.com/gdamore/tcell/v2"
	xenc "golang.org/x/text/encoding"

	"verif/core"
	"verif/shadow"
)

func init() { register("C18", C18) }

type simSess struct {
	cs  string
	enc xenc.Encoding // nil: UTF-8 (or ASCII when cs is US-ASCII)
}

func (ss simSess) encode(r rune) ([]byte, bool) {
	if ss.cs == "UTF-8" {
		if r < 0 || r > 0x10ffff || (r >= 0xd800 && r < 0xe000) {
			return nil, false
		}
		return []byte(string(r)), true
	}
	if r < 0x80 && r >= 0 {
		return []byte{byte(r)}, true
	}
	if ss.enc == nil {
		return nil, false
	}
	e := ss.enc.NewEncoder()
	out := make([]byte, 8)
	n, _, err := e.Transform(out, []byte(string(r)), true)
	if err != nil || n == 0 || out[0] == 0x1a {
		return nil, false
	}
	return out[:n], true
}

// injectAndCollect runs inject(), then injects a sentinel key and polls up to
// it: everything injected before must come out before the sentinel (the queue
// is FIFO).  The poller runs concurrently so that a full queue cannot block
// the injection.  ok=false only when the watchdog fires (inconclusive).
func injectAndCollect(s tcell.SimulationScreen, inject func()) ([]tcell.Event, bool) {
	ch := make(chan []tcell.Event, 1)
	go func() {
		var out []tcell.Event
		for {
			ev := s.PollEvent()
			if ev == nil {
				ch <- nil
				return
			}
			if k, ok := ev.(*tcell.EventKey); ok && k.Key() == tcell.KeyF64 && k.Modifiers() == 15 {
				ch <- out
				return
			}
			if _, ok := ev.(*tcell.EventResize); ok {
				continue
			}
			out = append(out, ev)
		}
	}()
	inject()
	s.InjectKey(tcell.KeyF64, 0, tcell.ModMask(15))
	select {
	case o := <-ch:
		return o, true
	case <-time.After(30 * time.Second):
		return nil, false
	}
}

func C18(r *core.Run) {
	r.Rule = "SimulationScreen in UTF-8 and legacy charsets, in lock-step with the shared shadow model: seeded draw histories (SetContent/SetCell/Fill/Clear/SetStyle/ShowCursor/HideCursor/LockRegion/identical re-stores/Show/Sync/SetSize); after every Show/Sync every visible unlocked cell of GetContents() must hold the runes and resolved style last set (wide rune in the last column blank) and Bytes = encoder -> registered fallback -> '?'; SetSize must keep the overlap and deliver a resize event with the new size; GetCursor must reflect ShowCursor. Injection: InjectKey/InjectMouse batches (1-60 events, a quarter longer than the queue; mouse coordinates inside, on and beyond the edges) and InjectKeyBytes of every valid single character of each charset and of seeded strings (incl. a multi-byte character at the end) must come out of PollEvent in order, exactly. distinct = distinct (charset, history) / (charset, string)."
	r.Assumptions = []string{"the column covered by a wide rune is don't-care in GetContents()", "cells holding StyleDefault accept any default style set since the last Sync", "events are injected with a draining poller running (the queue is bounded by design: the injector is held back when it is full)"}
	sessions := []simSess{{cs: "UTF-8"}}
	for _, cs := range legacyCharsets {
		switch cs.name {
		case "ISO8859-1", "ISO8859-15", "KOI8-R", "GBK", "SHIFT_JIS", "EUC-JP", "EUC-KR", "Big5", "GB18030":
			sessions = append(sessions, simSess{cs: cs.name, enc: cs.enc})
		}
	}
	nh := r.Pick(600, 20000)
	core.Parallel(len(sessions), func(si int) {
		ss := sessions[si]
		for hi := 0; hi < nh; hi++ {
			c18history(r, ss, hi)
		}
	})
	core.Parallel(len(sessions), func(si int) {
		c18inject(r, sessions[si])
		c18fallbacks(r, sessions[si])
	})
}

func c18history(r *core.Run, ss simSess, hi int) {
	rg := r.Rand("h", ss.cs, hi)
	w, h, ops := shadow.Gen(rg, shadow.GenOpts{MaxW: 14, MaxH: 5, NoCorrupt: true, NoCursorStyle: true, Urls: true})
	cat, what := c18exec(ss, w, h, ops)
	r.Case(fmt.Sprintf("h|%s|%d", ss.cs, hi))
	if cat == "INCONCLUSIVE" {
		r.Inconclusive(what)
		return
	}
	if cat != "" {
		for changed, rounds := true, 0; changed && rounds < 4; rounds++ {
			changed = false
			for k := 0; k < len(ops); k++ {
				cand := append(append([]shadow.Op{}, ops[:k]...), ops[k+1:]...)
				if c2, w2 := c18exec(ss, w, h, cand); c2 == cat {
					ops, what, changed = cand, w2, true
					k--
				}
			}
		}
		r.Violate(cat+"|"+csFamily(ss.cs)+"|"+opShape(ops), fmt.Sprintf("%s %dx%d: %s :: history: %s", ss.cs, w, h, what, shadow.OpsString(ops)), map[string]any{"charset": ss.cs, "w": w, "h": h, "ops": ops})
	}
	if hi < 1 {
		r.Sample(5, map[string]any{"kind": "draw history", "charset": ss.cs, "screen": fmt.Sprintf("%dx%d", w, h), "ops": short(shadow.OpsString(ops), 400)})
	}
}

func c18exec(ss simSess, w, h int, ops []shadow.Op) (string, string) {
	s := tcell.NewSimulationScreen(ss.cs)
	if s == nil {
		return "harness", "no simulation screen"
	}
	if err := s.Init(); err != nil {
		return "init", err.Error()
	}
	defer s.Fini()
	// after every SetSize+Show a sentinel key is injected and the queue is polled up
	// to it: the queue is FIFO, so the resize event (if any) comes before the sentinel
	waitResize := func(ww, hh int) (string, string) {
		s.InjectKey(tcell.KeyF64, 0, tcell.ModMask(15))
		type res struct {
			sizes [][2]int
			ok    bool
		}
		ch := make(chan res, 1)
		go func() {
			var rs res
			for {
				ev := s.PollEvent()
				if ev == nil {
					ch <- rs
					return
				}
				if rz, ok := ev.(*tcell.EventResize); ok {
					a, b := rz.Size()
					rs.sizes = append(rs.sizes, [2]int{a, b})
				}
				if k, ok := ev.(*tcell.EventKey); ok && k.Key() == tcell.KeyF64 && k.Modifiers() == 15 {
					rs.ok = true
					ch <- rs
					return
				}
			}
		}()
		select {
		case rs := <-ch:
			if !rs.ok {
				return "INCONCLUSIVE", "sentinel not delivered"
			}
			for _, sz := range rs.sizes {
				if sz == [2]int{ww, hh} {
					return "", ""
				}
			}
			return "setsize:no-resize-event", fmt.Sprintf("SetSize(%d,%d) followed by Show(): no resize event with the new size was queued (resize events seen: %v)", ww, hh, rs.sizes)
		case <-time.After(30 * time.Second):
			return "INCONCLUSIVE", "poller watchdog"
		}
	}
	s.SetSize(w, h)
	s.Show()
	if w != 80 || h != 25 {
		if c, wh := waitResize(w, h); c != "" {
			return c, wh
		}
	}
	m := shadow.NewModel(w, h)
	defHist := []shadow.Spec{{}}
	fallbacks := tcell.RuneFallbacks
	check := func(what string, full bool) (string, string) {
		cells, cw, ch := s.GetContents()
		if cw != m.W || ch != m.H || len(cells) != cw*ch {
			return "contents:size", fmt.Sprintf("%s: GetContents reports %dx%d (%d cells), model %dx%d", what, cw, ch, len(cells), m.W, m.H)
		}
		if sw, sh := s.Size(); sw != m.W || sh != m.H {
			return "size", fmt.Sprintf("%s: Size() = %dx%d, model %dx%d", what, sw, sh, m.W, m.H)
		}
		exp := m.Expected()
		for y := 0; y < m.H; y++ {
			for x := 0; x < m.W; x++ {
				i := y*m.W + x
				if m.C[i].Lock || exp[i].Cont {
					continue
				}
				if x > 0 && m.C[i-1].Lock && exp[i-1].Wide {
					continue
				}
				e := exp[i]
				g := cells[i]
				wantRunes := append([]rune{e.R}, e.Comb...)
				if !runesEq(g.Runes, wantRunes) {
					return "contents:runes", fmt.Sprintf("%s: cell (%d,%d) holds runes %U, expected %U", what, x, y, g.Runes, wantRunes)
				}
				ok := false
				if e.DefStyle {
					for _, d := range defHist {
						if g.Style == d.Style() {
							ok = true
						}
					}
				} else {
					ok = g.Style == e.St.Style()
				}
				if !ok {
					return "contents:style", fmt.Sprintf("%s: cell (%d,%d) %q has style %+v, expected %s", what, x, y, e.R, g.Style, e.St.Short())
				}
				var wantBytes []byte
				for k, rn := range wantRunes {
					if b, ok := ss.encode(rn); ok {
						wantBytes = append(wantBytes, b...)
					} else if fb, ok := fallbacks[rn]; ok && k == 0 {
						wantBytes = append(wantBytes, fb...)
					} else if k == 0 {
						wantBytes = append(wantBytes, '?')
					}
				}
				if string(g.Bytes) != string(wantBytes) {
					return "contents:bytes", fmt.Sprintf("%s: cell (%d,%d) %U has Bytes %q, expected %q", what, x, y, wantRunes, g.Bytes, wantBytes)
				}
			}
		}
		cx, cy, vis := s.GetCursor()
		in := m.CX >= 0 && m.CY >= 0 && m.CX < m.W && m.CY < m.H
		if vis != in || (in && (cx != m.CX || cy != m.CY)) {
			return "cursor", fmt.Sprintf("%s: GetCursor() = (%d,%d,%v), ShowCursor asked for (%d,%d) on %dx%d", what, cx, cy, vis, m.CX, m.CY, m.W, m.H)
		}
		if full {
			defHist = []shadow.Spec{m.Def}
		}
		return "", ""
	}
	if c, wh := check("first show", true); c != "" {
		return c, wh
	}
	for oi, o := range ops {
		tag := fmt.Sprintf("op %d %s", oi, o.K)
		switch o.K {
		case "set", "setcell":
			if m.In(o.X, o.Y) && m.IsHidden(o.X, o.Y) {
				continue
			}
			if o.K == "setcell" {
				s.SetCell(o.X, o.Y, o.Sp.Style(), append([]rune{o.R}, o.Comb...)...)
			} else {
				s.SetContent(o.X, o.Y, o.R, o.Comb, o.Sp.Style())
			}
			m.Set(o.X, o.Y, o.R, o.Comb, o.Sp)
		case "restore":
			if !m.In(o.X, o.Y) || m.IsHidden(o.X, o.Y) {
				continue
			}
			c := m.C[o.Y*m.W+o.X]
			if o.CS >= 3 {
				nc := shadow.Recomb(c.Comb)
				if nc == nil {
					continue
				}
				s.SetContent(o.X, o.Y, c.R, nc, c.St.Style())
				m.Set(o.X, o.Y, c.R, nc, c.St)
				continue
			}
			s.SetContent(o.X, o.Y, c.R, append([]rune{}, c.Comb...), c.St.Style())
		case "fill", "clear":
			rn, sp := o.R, o.Sp
			if o.K == "clear" {
				rn, sp = ' ', shadow.Spec{}
				s.Clear()
			} else {
				s.Fill(rn, sp.Style())
			}
			for y := 0; y < m.H; y++ {
				for x := 0; x < m.W; x++ {
					m.Set(x, y, rn, nil, sp)
				}
			}
		case "setstyle":
			s.SetStyle(o.Sp.Style())
			m.Def = o.Sp
			defHist = append(defHist, o.Sp)
		case "cursor":
			m.CX, m.CY = o.X, o.Y
			s.ShowCursor(o.X, o.Y)
		case "hidecursor":
			m.CX, m.CY = -1, -1
			s.HideCursor()
		case "show":
			s.Show()
			if c, wh := check(tag, false); c != "" {
				return c, wh
			}
		case "sync", "corruptsync":
			s.Sync()
			if c, wh := check(tag, true); c != "" {
				return c, wh
			}
		case "resize", "resizecb":
			if o.W == m.W && o.H == m.H {
				continue
			}
			s.SetSize(o.W, o.H)
			m.Resize(o.W, o.H)
			m.CX, m.CY = -1, -1 // SetSize documents nothing about the cursor; the simulator hides it
			s.Show()
			if c, wh := waitResize(o.W, o.H); c != "" {
				return c, wh
			}
			s.ShowCursor(-1, -1)
			if c, wh := check(tag, true); c != "" {
				return c, wh
			}
		case "lock":
			s.LockRegion(o.X, o.Y, o.W, o.H, o.Lock)
			for j := o.Y; j < o.Y+o.H && j < m.H; j++ {
				for i2 := o.X; i2 < o.X+o.W && i2 < m.W; i2++ {
					if j >= 0 && i2 >= 0 {
						m.C[j*m.W+i2].Lock = o.Lock
					}
				}
			}
		}
	}
	return "", ""
}

func c18inject(r *core.Run, ss simSess) {
	s := tcell.NewSimulationScreen(ss.cs)
	if s == nil || s.Init() != nil {
		r.Inconclusive("no simulation screen for " + ss.cs)
		return
	}
	defer s.Fini()
	s.SetSize(80, 25)
	s.Show()
	// --- keys and mouse, batches of <= 10 ---
	nb := r.Pick(200, 5000)
	for bi := 0; bi < nb; bi++ {
		rg := r.Rand("inj", ss.cs, bi)
		n := 1 + rg.IntN(10)
		if bi%4 == 3 {
			n = 11 + rg.IntN(50) // more than the queue holds: the injector is held back, order kept
		}
		var want []NEv
		type inj struct {
			key   tcell.Key
			rn    rune
			mod   tcell.ModMask
			mouse bool
			x, y  int
			btn   tcell.ButtonMask
		}
		var injs []inj
		for k := 0; k < n; k++ {
			if rg.IntN(2) == 0 {
				key := []tcell.Key{tcell.KeyRune, tcell.KeyUp, tcell.KeyF5, tcell.KeyEnter, tcell.KeyCtrlA, tcell.KeyEsc, tcell.KeyBackspace2}[rg.IntN(7)]
				rn := rune(0)
				if key == tcell.KeyRune {
					rn = []rune("aZ9é世😀")[rg.IntN(6)]
				}
				mod := tcell.ModMask(rg.IntN(16))
				injs = append(injs, inj{key: key, rn: rn, mod: mod})
				want = append(want, normEv(tcell.NewEventKey(key, rn, mod)))
			} else {
				x, y := rg.IntN(80), rg.IntN(25)
				if rg.IntN(4) == 0 {
					// at, beyond and before the edges: delivered exactly as injected
					x, y = rg.IntN(400)-20, rg.IntN(200)-20
				}
				btn := []tcell.ButtonMask{tcell.ButtonNone, tcell.Button1, tcell.Button2, tcell.Button3, tcell.WheelUp, tcell.WheelDown, tcell.Button1 | tcell.Button2}[rg.IntN(7)]
				mod := tcell.ModMask(rg.IntN(16))
				injs = append(injs, inj{mouse: true, x: x, y: y, btn: btn, mod: mod})
				want = append(want, NEv{T: "mouse", X: x, Y: y, Btn: btn, Mod: mod})
			}
		}
		evs, ok := injectAndCollect(s, func() {
			for _, i := range injs {
				if i.mouse {
					s.InjectMouse(i.x, i.y, i.btn, i.mod)
				} else {
					s.InjectKey(i.key, i.rn, i.mod)
				}
			}
		})
		if !ok {
			r.Inconclusive(ss.cs + ": poller watchdog")
			return
		}
		got := normEvs(evs)
		if !evsEq(got, want) {
			r.Violate("inject:changed", fmt.Sprintf("%s: injected %s, PollEvent delivered %s", ss.cs, evsStr(want), evsStr(got)), nil)
			return
		}
		r.Case(fmt.Sprintf("inj|%s|%d", ss.cs, bi))
	}
	// --- key bytes ---
	var runes []rune
	var encs [][]byte
	if ss.cs == "UTF-8" {
		for _, rn := range "abcXYZ019 ~éñüßλжЩ世界日本語あア한😀🎉‱←" {
			runes = append(runes, rn)
			encs = append(encs, []byte(string(rn)))
		}
		for cp := rune(0xa0); cp < 0x3000; cp += 7 {
			runes = append(runes, cp)
			encs = append(encs, []byte(string(cp)))
		}
	} else {
		for _, cs := range legacyCharsets {
			if cs.name == ss.cs {
				runes, encs = repertoire(cs, r)
			}
		}
	}
	tryBytes := func(b []byte, want []rune, kind string) bool {
		ret := false
		evs, ok := injectAndCollect(s, func() { ret = s.InjectKeyBytes(b) })
		if !ok {
			r.Inconclusive(ss.cs + ": poller watchdog")
			return false
		}
		got := normEvs(evs)
		good := ret && len(got) == len(want)
		for i := 0; good && i < len(want); i++ {
			good = got[i].T == "key" && got[i].Key == tcell.KeyRune && got[i].Rune == want[i] && got[i].Mod == 0
		}
		if !good {
			anomaly := "changed"
			if len(got) < len(want) {
				anomaly = "lost"
			}
			r.Violate("injectbytes:"+kind+":"+anomaly+"|"+csFamily(ss.cs), fmt.Sprintf("%s: InjectKeyBytes(%q) (text %q) returned %v and delivered %s", ss.cs, b, string(want), ret, evsStr(got)), nil)
			return false
		}
		return true
	}
	step := 1
	if r.Quick() && len(runes) > 3000 {
		step = len(runes) / 3000
	}
	n := int64(0)
	for i := 0; i < len(runes); i += step {
		n++
		if !tryBytes(encs[i], []rune{runes[i]}, "single") {
			break
		}
	}
	r.CaseN(n, n)
	ns := r.Pick(300, 20000)
	for si := 0; si < ns; si++ {
		rg := r.Rand("bytes", ss.cs, si)
		var want []rune
		var b []byte
		nch := 1 + rg.IntN(9)
		if si%5 == 4 {
			nch = 12 + rg.IntN(40) // more characters than the event queue holds
		}
		for k := 0; k < nch; k++ {
			j := pickRune(rg, len(runes))
			want = append(want, runes[j])
			b = append(b, encs[j]...)
		}
		if si%2 == 0 { // end in a multi-byte character when the charset has one
			for tries := 0; tries < 50; tries++ {
				j := rg.IntN(len(runes))
				if len(encs[j]) > 1 {
					want[len(want)-1] = runes[j]
					b = b[:0]
					for _, rn := range want[:len(want)-1] {
						for q := range runes {
							if runes[q] == rn {
								b = append(b, encs[q]...)
								break
							}
						}
					}
					b = append(b, encs[j]...)
					break
				}
			}
		}
		r.Case(fmt.Sprintf("bytes|%s|%x", ss.cs, b))
		if !tryBytes(b, want, "string") {
			break
		}
		if si < 1 {
			r.Sample(5, map[string]any{"kind": "InjectKeyBytes", "charset": ss.cs, "text": string(want), "bytes": fmt.Sprintf("%q", b)})
		}
	}
	_ = strings.Join
}

func pickRune(rg *rand.Rand, n int) int {
	if rg.IntN(3) == 0 {
		return rg.IntN(min(95, n))
	}
	return rg.IntN(n)
}

// c18fallbacks: "Bytes ... under the same fallback rules as a real screen": a registration
// change takes effect at the next draw of the cell, also when only the style of the cell
// changed in between (or nothing but a Sync happened).
func c18fallbacks(r *core.Run, ss simSess) {
	if ss.cs == "UTF-8" {
		return
	}
	s := tcell.NewSimulationScreen(ss.cs)
	if s == nil || s.Init() != nil {
		r.Inconclusive("no simulation screen for " + ss.cs)
		return
	}
	defer s.Fini()
	s.SetSize(20, 4)
	rg := r.Rand("c18fb", ss.cs)
	var cands []rune
	for _, rn := range []rune{0x2500, 0x2502, 0x25c6, 0x2192, 0x03c0, 0x20ac, 0x4e16, 0x1f600, 0x00e9, 0x0416} {
		if _, ok := ss.encode(rn); !ok {
			cands = append(cands, rn)
		}
	}
	if len(cands) == 0 {
		return
	}
	bytesAt := func(x, y int) string {
		cells, w, _ := s.GetContents()
		return string(cells[y*w+x].Bytes)
	}
	for k := 0; k < r.Pick(12, 200); k++ {
		rn := cands[rg.IntN(len(cands))]
		x, y := rg.IntN(9)*2, rg.IntN(4)
		nst := 0
		st := func(int) tcell.Style { // a style different from the one used last, every time
			nst++
			return tcell.StyleDefault.Foreground(tcell.PaletteColor(1 + nst%7)).Bold(nst%2 == 0)
		}
		want := "?"
		if fb, ok := tcell.RuneFallbacks[rn]; ok {
			want = fb
		}
		redraw := func(i int) {
			switch rg.IntN(3) {
			case 0:
				s.SetContent(x, y, rn, nil, st(i)) // same rune, another style
				s.Show()
			case 1:
				s.Sync()
			default:
				s.SetContent(x, y, 'z', nil, st(i))
				s.Show()
				s.SetContent(x, y, rn, nil, st(i+1))
				s.Show()
			}
		}
		s.Clear()
		s.SetContent(x, y, rn, nil, st(0))
		s.Show()
		steps := []struct {
			what string
			f    func()
			want string
		}{
			{"first draw", func() {}, want},
			{"RegisterRuneFallback(\"#\") then redraw", func() { s.RegisterRuneFallback(rn, "#"); redraw(1) }, "#"},
			{"RegisterRuneFallback(\"%\") then redraw", func() { s.RegisterRuneFallback(rn, "%"); redraw(2) }, "%"},
			{"UnregisterRuneFallback then redraw", func() { s.UnregisterRuneFallback(rn); redraw(3) }, "?"},
		}
		for _, stp := range steps {
			stp.f()
			if got := bytesAt(x, y); got != stp.want {
				r.Violate("fallback:bytes|"+csFamily(ss.cs), fmt.Sprintf("%s: cell (%d,%d) holding %U (not representable): after %s its Bytes are %q, expected %q", ss.cs, x, y, rn, stp.what, got, stp.want), nil)
				return
			}
		}
		// put the default back for the next round
		if fb, ok := tcell.RuneFallbacks[rn]; ok {
			s.RegisterRuneFallback(rn, fb)
		}
		r.Case(fmt.Sprintf("simfb|%s|%d|%d", ss.cs, rn, k))
	}
}
