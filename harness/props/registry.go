// Package props holds one monitor per property.
package props

import (
	"sort"

	"verif/core"
)

// Registry maps a property id to its check.
var Registry = map[string]func(r *core.Run){}

func register(id string, f func(r *core.Run)) { Registry[id] = f }

func IDs() []string {
	var ids []string
	for k := range Registry {
		ids = append(ids, k)
	}
	sort.Strings(ids)
	return ids
}
