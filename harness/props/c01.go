package props

import (
	"fmt"
	"github.com/gdamore/tcell/v2"
	"golang.org/x/text/encoding/charmap"
	"os"
	"runtime"
	"strings"
	"sync"
	"sync/atomic"
	"time"
	"verif/census"
	"verif/vt"

	"verif/core"
	"verif/shadow"
)

func init() {
	register("C01", func(r *core.Run) { screenProps(r, "C01"); c01flip(r) })
	register("C13", func(r *core.Run) { screenProps(r, "C13") })
}

// shrink greedily drops operations (and then tries a smaller screen) while the
// same property and category keep failing.
func shrink(se *session, w, h int, ops []shadow.Op, eo execOpts, v *viol) (int, int, []shadow.Op, *viol) {
	same := func(v2 *viol) bool { return v2 != nil && v2.prop == v.prop && v2.cat == v.cat }
	eo.stats = nil
	for changed, rounds := true, 0; changed && rounds < 6; rounds++ {
		changed = false
		for i := 0; i < len(ops); i++ {
			cand := append(append([]shadow.Op{}, ops[:i]...), ops[i+1:]...)
			if v2 := execHistory(se, w, h, cand, eo); same(v2) {
				ops, v, changed = cand, v2, true
				i--
			}
		}
	}
	return w, h, ops, v
}

func opShape(ops []shadow.Op) string {
	var ks []string
	for _, o := range ops {
		k := o.K
		if k == "set" || k == "setcell" {
			switch {
			case shadow.MustBlank(o.R):
				k += "-blank"
			case shadow.Width(o.R) == 2:
				k += "-wide"
			}
			if len(o.Comb) > 0 {
				k += "-comb"
			}
		}
		if len(ks) == 0 || ks[len(ks)-1] != k {
			ks = append(ks, k)
		}
	}
	if len(ks) > 6 {
		ks = ks[len(ks)-6:]
	}
	return strings.Join(ks, ",")
}

// sessionsFor builds the configurations: every ECMA-48-family entry as it is
// registered and with the 24-bit strings added (what COLORTERM=truecolor does).
func sessionsFor(modes ...string) []*session {
	var out []*session
	for _, ti := range ECMAEntries() {
		for _, m := range modes {
			if m == "direct" && ti.Colors == 0 {
				continue
			}
			out = append(out, newSession(ti, m))
		}
	}
	return out
}

// screenProps runs the draw histories for C01 or C13 (the oracles of the other
// are disarmed; output-grammar errors are C09's and only counted here).
func screenProps(r *core.Run, prop string) {
	if prop == "C01" {
		r.Rule = "lock-step differential: seeded draw histories (20-100 ops of SetContent/SetCell/Fill/Clear/SetStyle/ShowCursor/HideCursor/SetCursorStyle/LockRegion/Show/Sync/resize (silent + Show, and through the resize callback)/external corruption + Sync) on a real terminfo screen over the fake tty; every byte written is interpreted by the reference terminal and after every Show/Sync/resize the whole grid (rune, combining, width, colours, attributes, underline style/colour, hyperlink) and the cursor are compared with the shadow model. Configurations: all 45 ECMA-48-family entries x {as registered, with 24-bit strings added} and a TCELL_TRUECOLOR=disable pass. non-trivial = a history that reached at least 3 compared redraws; distinct = distinct (configuration, history)."
	} else {
		r.Rule = "same histories as C01; per Show the reference terminal's write stamps give the set of cells that received text; allowed = cells whose logical content was set to something different at any time since the previous Show + right neighbour of any cell that was wide then or since + cells passed to LockRegion(false) + the bottom-right neighbour on insert-character entries + everything after Sync/resize. Locked cells: no write while locked; repainted by the first Show after unlock. A Show directly after a Show must write no cell."
	}
	r.Assumptions = []string{"A1 deferred-wrap (xenl) terminals", "A2 terminal and library agree on character widths (go-runewidth, non East Asian)", "A3 sun/sun-color treat FF as clear+home", "A4 padding delays disabled on the private entry copy", "colours set by a non-39;49 'op' string are aliases of the default colours when ColorReset is used", "cells holding StyleDefault accept any default style set since the last full redraw"}
	armed := map[string]bool{prop: true}
	nh := r.Pick(60, 1500)
	run := func(sessions []*session, phase string) {
		var mu sync.Mutex
		type key struct{ fam, cat string }
		seen := map[key]int{}
		core.Parallel(len(sessions), func(si int) {
			se := sessions[si]
			for hi := 0; hi < nh; hi++ {
				rg := r.Rand(phase, se.label(), hi)
				w, h, ops := shadow.Gen(rg, shadow.GenOpts{MaxW: 16, MaxH: 6, Urls: true, SuspendResume: true, WriteFail: prop == "C13"})
				if !r.Quick() && hi%3 == 0 {
					w, h, ops = shadow.Gen(rg, shadow.GenOpts{MaxW: 40, MaxH: 12, Urls: true, SuspendResume: true, WriteFail: prop == "C13"})
				}
				if se.family() == "insert-char-trick" && hi%2 == 1 {
					// the entries that paint the bottom-right cell through an insert-character detour:
					// half of their histories concentrate on the last columns of the bottom row
					w, h, ops = shadow.Gen(rg, shadow.GenOpts{MaxW: 12, MaxH: 3, Urls: true, Corner: true, WriteFail: prop == "C13"})
				}
				st := &execStats{}
				v := execHistory(se, w, h, ops, execOpts{props: armed, stats: st})
				r.Count("cells_compared", st.cellsCompared)
				r.Count("shows", st.shows)
				r.Count("syncs", st.syncs)
				r.Count("resizes", st.resizes)
				r.Count("controls_interpreted", st.controls)
				r.Count("unknown_controls", st.unknownControls)
				r.Count("output_grammar_errors_seen_(decided_by_C09)", st.grammarErrors)
				if st.shows+st.syncs+st.resizes >= 3 {
					r.Case(fmt.Sprintf("%s|%s|%d", phase, se.label(), hi))
				} else {
					r.Case("")
				}
				if si == 0 && hi < 2 && phase == "asis" {
					r.Sample(4, map[string]any{"configuration": se.label(), "screen": fmt.Sprintf("%dx%d", w, h), "ops": short(shadow.OpsString(ops), 600)})
				}
				if v == nil {
					continue
				}
				if v.prop == "INCONCLUSIVE" {
					r.Inconclusive(se.label() + ": " + v.cat + " " + v.what)
					continue
				}
				if v.prop != prop {
					r.Count("violations_of_other_properties_seen_"+v.prop, 1)
					continue
				}
				mu.Lock()
				k := key{se.family(), v.cat}
				seen[k]++
				first := seen[k] <= 2
				mu.Unlock()
				if !first {
					r.Violate(v.cat+"|"+se.family()+"|*", "", nil)
					continue
				}
				w2, h2, ops2, v2 := shrink(se, w, h, ops, execOpts{props: armed}, v)
				sig := v2.cat + "|" + se.family() + "|" + opShape(ops2)
				loc := ""
				if phase == "latin1" {
					loc = " (LC_ALL=en_US.ISO8859-1)"
					sig += "|ISO8859-1"
				}
				r.Violate(sig, fmt.Sprintf("%s%s %dx%d: %s :: history: %s", se.label(), loc, w2, h2, v2.what, shadow.OpsString(ops2)),
					map[string]any{"configuration": se.label(), "w": w2, "h": h2, "ops": ops2, "phase": phase, "history": hi})
			}
		})
	}
	os.Unsetenv("TCELL_TRUECOLOR")
	run(sessionsFor("asis", "direct"), "asis")
	os.Setenv("TCELL_TRUECOLOR", "disable")
	nhSave := nh
	nh = (nh + 2) / 3
	run(sessionsFor("nodirect"), "nodirect")
	nh = nhSave
	os.Unsetenv("TCELL_TRUECOLOR")
	if prop == "C13" {
		// which cells a Show writes does not depend on the locale either: a quarter as many
		// histories on screens that encode for ISO8859-1 (substitutes, ACS glyphs, elided
		// combining marks), the reference terminal decoding that charset. Sequential pass:
		// the locale is process-wide.
		c09locale("en_US.ISO8859-1")
		ss := sessionsFor("asis")
		for _, se := range ss {
			se.dec = xtextDecoder(charmap.ISO8859_1)
			se.charset = "ISO8859-1"
		}
		nh = (nhSave + 3) / 4
		run(ss, "latin1")
		nh = nhSave
		c09locale("C.UTF-8")
		os.Unsetenv("LANG")
		os.Unsetenv("LC_CTYPE")
	}
}

// c01flip: "after the terminal reports a new size, the same holds even if the terminal's previous
// contents were arbitrary", for size reports that coalesce: the window goes A -> B -> A (contents
// re-flowed, i.e. arbitrary) while the main loop cannot look (another goroutine is inside Show on
// a slow terminal), so that by the time it handles the notification the size is the one it knew.
// The verdict is taken once the library is structurally idle.
func c01flip(r *core.Run) {
	for _, name := range []string{"xterm-256color", "vt220", "linux"} {
		for round := 0; round < r.Pick(1, 8); round++ {
			ti := Pristine(name)
			const W, H = 14, 6
			term := vt.New(W, H)
			term.Acs = vt.BuildAcs(ti.AltChars)
			ls, err := startScreen(ti, W, H, func(b []byte) { term.Feed(b) })
			if err != nil {
				r.Inconclusive(err.Error())
				return
			}
			s := ls.s
			want := func(x, y int) rune { return rune('a' + (x+y*3+round)%26) }
			ls.tty.BeginApp()
			for y := 0; y < H; y++ {
				for x := 0; x < W; x++ {
					s.SetContent(x, y, want(x, y), nil, tcell.StyleDefault)
				}
			}
			s.Show()
			ls.tty.EndApp()
			for ls.s.HasPendingEvent() {
				ls.s.PollEvent()
			}
			// another goroutine of the application is inside Show on a slow terminal
			atomic.StoreInt64(&ls.tty.WriteDelayNS, int64(150*time.Millisecond))
			shown := make(chan struct{})
			go func() {
				ls.tty.BeginApp()
				s.SetContent(0, 0, 'Z', nil, tcell.StyleDefault)
				s.Show()
				ls.tty.EndApp()
				close(shown)
			}()
			stalled := false
			for i := 0; i < 400000 && !stalled; i++ {
				stalled = atomic.LoadInt32(&ls.tty.InDelay) > 0
				runtime.Gosched()
			}
			// the window changes and changes back; the terminal re-flows its contents
			w2, h2 := W-5+round%3, H-2
			ls.tty.Locked(func() { term.Resize(w2, h2) })
			ls.tty.SetSize(w2, h2)
			ls.tty.NotifyNow()
			ls.tty.Locked(func() { term.Resize(W, H) })
			ls.tty.SetSize(W, H)
			scribble(ls.tty, term, '?')
			ls.tty.NotifyNow()
			atomic.StoreInt64(&ls.tty.WriteDelayNS, 0)
			<-shown
			// wait until the library has nothing left to do
			idle := false
			for try := 0; try < 10 && !idle; try++ {
				s1, a1 := census.Parked(census.Dump(), nil)
				time.Sleep(300 * time.Millisecond)
				s2, a2 := census.Parked(census.Dump(), nil)
				idle = a1 && a2 && len(s1) > 0 && strings.Join(s1, ",") == strings.Join(s2, ",")
			}
			bad := ""
			if idle && stalled {
				ls.tty.Locked(func() {
					for y := 0; y < H && bad == ""; y++ {
						for x := 0; x < W; x++ {
							w := want(x, y)
							if x == 0 && y == 0 {
								w = 'Z'
							}
							if c := term.At(x, y); c.R != w {
								bad = fmt.Sprintf("cell (%d,%d) shows %q, the application's content there is %q", x, y, c.R, w)
								break
							}
						}
					}
				})
			}
			ls.fini()
			switch {
			case !stalled || !idle:
				r.Count("flip_rounds_not_judged", 1)
				r.Case("")
			default:
				r.Case(fmt.Sprintf("flip|%s|%d", name, round))
				r.Count("flip_rounds", 1)
				if bad != "" {
					r.Violate("resize:coalesced-size-reports", fmt.Sprintf("%s %dx%d: the window went to %dx%d and back (two size reports, terminal contents re-flowed) while another goroutine was inside Show; once the library is idle %s", name, W, H, w2, h2, bad), nil)
					return
				}
			}
		}
	}
}
