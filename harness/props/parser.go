package props

import (
	"fmt"
	"sort"
	"strings"

	"github.com/gdamore/tcell/v2"
	_ "github.com/gdamore/tcell/v2/encoding"
	"github.com/gdamore/tcell/v2/terminfo"
)

// NEv is a normalised input event.
type NEv struct {
	T    string // key mouse paste focus clip other
	Key  tcell.Key
	Rune rune
	Mod  tcell.ModMask
	X, Y int
	Btn  tcell.ButtonMask
	Flag bool
	Data string
}

func (e NEv) String() string {
	switch e.T {
	case "key":
		if e.Key == tcell.KeyRune {
			return fmt.Sprintf("rune(%q,mod=%d)", e.Rune, e.Mod)
		}
		n := tcell.KeyNames[e.Key]
		if n == "" {
			n = fmt.Sprintf("key%d", e.Key)
		}
		return fmt.Sprintf("key(%s,mod=%d,ch=%q)", n, e.Mod, e.Rune)
	case "mouse":
		return fmt.Sprintf("mouse(%d,%d,btn=%#x,mod=%d)", e.X, e.Y, int(e.Btn), e.Mod)
	case "paste":
		return fmt.Sprintf("paste(start=%v)", e.Flag)
	case "focus":
		return fmt.Sprintf("focus(%v)", e.Flag)
	case "clip":
		return fmt.Sprintf("clipboard(%q)", e.Data)
	}
	return e.T + "(" + e.Data + ")"
}

func normEv(ev tcell.Event) NEv {
	switch e := ev.(type) {
	case *tcell.EventKey:
		return NEv{T: "key", Key: e.Key(), Rune: e.Rune(), Mod: e.Modifiers()}
	case *tcell.EventMouse:
		x, y := e.Position()
		return NEv{T: "mouse", X: x, Y: y, Btn: e.Buttons(), Mod: e.Modifiers()}
	case *tcell.EventPaste:
		return NEv{T: "paste", Flag: e.Start()}
	case *tcell.EventFocus:
		return NEv{T: "focus", Flag: e.Focused}
	case *tcell.EventClipboard:
		return NEv{T: "clip", Data: string(e.Data())}
	}
	return NEv{T: "other", Data: fmt.Sprintf("%T", ev)}
}

func normEvs(evs []tcell.Event) []NEv {
	out := make([]NEv, len(evs))
	for i, e := range evs {
		out[i] = normEv(e)
	}
	return out
}

func evsEq(a, b []NEv) bool {
	if len(a) != len(b) {
		return false
	}
	for i := range a {
		if a[i] != b[i] {
			return false
		}
	}
	return true
}

func evsStr(a []NEv) string {
	var ss []string
	for i, e := range a {
		if i >= 12 {
			ss = append(ss, fmt.Sprintf("…(%d more)", len(a)-i))
			break
		}
		ss = append(ss, e.String())
	}
	return "[" + strings.Join(ss, " ") + "]"
}

// decoder decodes byte strings with one reusable parser (reset before every
// decode).  Not safe for concurrent use.
type decoder struct {
	p *tcell.VerifParser
}

func newDecoder(ti *terminfo.Terminfo, charset string, w, h int) (*decoder, error) {
	p, err := tcell.VerifNewParser(CopyTI(ti), charset, w, h)
	if err != nil {
		return nil, err
	}
	return &decoder{p: p}, nil
}

// chunks feeds the chunks to the (reset) parser, no expiry in between, and
// then lets the escape timeout expire.  It returns the events, the number of
// bytes left buffered, and a panic value if the parser panicked.
func (d *decoder) chunks(chunks [][]byte) (evs []NEv, left int, pan any) {
	defer func() {
		if e := recover(); e != nil {
			pan = e
		}
	}()
	d.p.Reset()
	for _, c := range chunks {
		e, _ := d.p.Feed(c, false)
		evs = append(evs, normEvs(e)...)
	}
	e, l := d.p.Feed(nil, true)
	evs = append(evs, normEvs(e)...)
	return evs, l, nil
}

func (d *decoder) whole(s []byte) ([]NEv, int, any) { return d.chunks([][]byte{s}) }

// modes records application modes on the parser's screen (as EnableMouse / EnablePaste /
// EnableFocus would); they persist across resets.
func (d *decoder) modes(mouse tcell.MouseFlags, paste, focus bool) { d.p.SetModes(mouse, paste, focus) }

// modeSet selects one of eight combinations of application modes by index: decoding must
// not depend on what the application has switched on.
func (d *decoder) modeSet(i int) {
	i &= 7
	d.modes([]tcell.MouseFlags{0, tcell.MouseButtonEvents, tcell.MouseDragEvents | tcell.MouseButtonEvents, tcell.MouseMotionEvents}[i%4], i&4 != 0, i&2 != 0 || i == 7)
}

// decodeChunks / decodeWhole use a fresh parser (slow: building the key table
// dominates); kept for one-off decodes.
func decodeChunks(ti *terminfo.Terminfo, charset string, w, h int, chunks [][]byte) (evs []NEv, left int, pan any) {
	d, err := newDecoder(ti, charset, w, h)
	if err != nil {
		return nil, 0, err
	}
	return d.chunks(chunks)
}

func decodeWhole(ti *terminfo.Terminfo, charset string, w, h int, s []byte) ([]NEv, int, any) {
	return decodeChunks(ti, charset, w, h, [][]byte{s})
}

// partition splits s at the positions whose bit is set in mask (bit i set =
// cut after byte i).
func partition(s []byte, mask uint64) [][]byte {
	var out [][]byte
	start := 0
	for i := 0; i < len(s)-1; i++ {
		if mask&(1<<uint(i)) != 0 {
			out = append(out, s[start:i+1])
			start = i + 1
		}
	}
	return append(out, s[start:])
}

func partitionAt(s []byte, cuts []int) [][]byte {
	sort.Ints(cuts)
	var out [][]byte
	start := 0
	for _, c := range cuts {
		if c > start && c < len(s) {
			out = append(out, s[start:c])
			start = c
		}
	}
	return append(out, s[start:])
}

// keyTable returns the key table tcell builds for ti.
func keyTable(ti *terminfo.Terminfo) map[string]tcell.VerifKeyCode {
	m, err := tcell.VerifKeyTable(CopyTI(ti))
	if err != nil {
		return nil
	}
	return m
}

// hasMouse / paste / focus support as the screen decides them.
func tiHasMouse(ti *terminfo.Terminfo) bool { return ti.Mouse != "" }
func tiXtermLike(ti *terminfo.Terminfo) bool {
	return ti.XTermLike || strings.HasPrefix(ti.Name, "xterm")
}
func tiHasPaste(ti *terminfo.Terminfo) bool {
	return ti.EnablePaste != "" || ti.Mouse != "" || tiXtermLike(ti)
}
func tiPasteKeys(ti *terminfo.Terminfo) (string, string) {
	if ti.PasteStart != "" {
		return ti.PasteStart, ti.PasteEnd
	}
	if tiHasPaste(ti) {
		return "\x1b[200~", "\x1b[201~"
	}
	return "", ""
}
func tiHasClipboard(ti *terminfo.Terminfo) bool { return tiXtermLike(ti) }
