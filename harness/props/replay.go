package props

import (
	"encoding/json"
	"fmt"
	"golang.org/x/text/encoding/charmap"
	"os"

	"verif/shadow"
)

// ReplayCase re-executes the single case stored in a replay file when the
// property supports it (the screen-history monitors); otherwise ok=false and
// the caller re-runs the whole check at the recorded seed and tier.
func ReplayCase(prop string, raw []byte) (ok bool, exit int) {
	var f struct {
		Signature string `json:"signature"`
		Case      struct {
			Configuration string      `json:"configuration"`
			W             int         `json:"w"`
			H             int         `json:"h"`
			Ops           []shadow.Op `json:"ops"`
			Phase         string      `json:"phase"`
		} `json:"case"`
	}
	if json.Unmarshal(raw, &f) != nil || len(f.Case.Ops) == 0 || f.Case.Configuration == "" {
		return false, 0
	}
	if prop != "C01" && prop != "C13" && prop != "C09" {
		return false, 0
	}
	var name, mode string
	for i := len(f.Case.Configuration) - 1; i >= 0; i-- {
		if f.Case.Configuration[i] == '/' {
			name, mode = f.Case.Configuration[:i], f.Case.Configuration[i+1:]
			break
		}
	}
	ti := Pristine(name)
	if ti == nil {
		fmt.Println("replay: unknown entry", name)
		return true, 3
	}
	if mode == "nodirect" {
		os.Setenv("TCELL_TRUECOLOR", "disable")
	}
	se := newSession(ti, mode)
	if f.Case.Phase == "latin1" {
		c09locale("en_US.ISO8859-1")
		se.dec = xtextDecoder(charmap.ISO8859_1)
		se.charset = "ISO8859-1"
	}
	w, h := f.Case.W, f.Case.H
	if w == 0 {
		w, h = 16, 6
	}
	fmt.Printf("replaying one history on %s %dx%d: %s\n", se.label(), w, h, shadow.OpsString(f.Case.Ops))
	v := execHistory(se, w, h, f.Case.Ops, execOpts{props: map[string]bool{prop: true}})
	if v == nil {
		fmt.Printf("HELD property=%s on this history\n", prop)
		return true, 0
	}
	fmt.Printf("VIOLATION property=%s replay=(this file)\n   signature: %s\n   %s\n", prop, v.cat, v.what)
	return true, 1
}
