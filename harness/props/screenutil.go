package props

import (
	"fmt"
	"strings"
	"sync"
	"sync/atomic"
	"time"
	"verif/census"
	"verif/core"

	"github.com/gdamore/tcell/v2"
	"github.com/gdamore/tcell/v2/terminfo"

	"verif/faketty"
)

func tcellNewParser(ti *terminfo.Terminfo, cs string, w, h int) (*tcell.VerifParser, error) {
	return tcell.VerifNewParser(CopyTI(ti), cs, w, h)
}

// liveScreen is a real terminfo screen on a fake tty.
type liveScreen struct {
	s   tcell.Screen
	tty *faketty.Tty
	ti  *terminfo.Terminfo
}

// startScreen builds and initialises a terminfo screen for a private copy of
// ti (padding delays disabled) on a fake tty of the given size.
func startScreen(ti *terminfo.Terminfo, w, h int, onWrite func([]byte)) (*liveScreen, error) {
	tic := CopyTI(ti)
	tic.PadChar = ""
	return startScreenOn(tic, w, h, onWrite)
}

// startScreenShared builds the screen on the description the library's own registry hands
// out for name (what NewScreen / NewTerminfoScreen do for an application): every screen of
// the process opened for that terminal shares it, so whatever one screen leaves behind in it
// is seen by the next.
func startScreenShared(name string, w, h int, onWrite func([]byte)) (*liveScreen, error) {
	ti, err := terminfo.LookupTerminfo(name)
	if err != nil {
		return nil, err
	}
	return startScreenOn(ti, w, h, onWrite)
}

func startScreenOn(tic *terminfo.Terminfo, w, h int, onWrite func([]byte)) (*liveScreen, error) {
	ft := faketty.New(w, h)
	ft.OnWrite = onWrite
	s, err := tcell.NewTerminfoScreenFromTtyTerminfo(ft, tic)
	if err != nil {
		return nil, err
	}
	ft.BeginApp()
	err = s.Init()
	ft.EndApp()
	if err != nil {
		return nil, fmt.Errorf("Init: %v", err)
	}
	return &liveScreen{s: s, tty: ft, ti: tic}, nil
}

// pollUntilRune polls events until a key event with the given rune arrives;
// resize events are dropped.  A generous watchdog makes the result
// inconclusive (ok=false), never a verdict.
func (l *liveScreen) pollUntilRune(sentinel rune) (evs []NEv, ok bool) {
	return l.startPoll(sentinel)()
}

// feedOrDone feeds b to the tty unless done fires first (returns false then).
func (l *liveScreen) feedOrDone(b []byte, done <-chan struct{}) bool {
	select {
	case l.tty.FeedC() <- append([]byte(nil), b...):
		return true
	case <-done:
		return false
	case <-time.After(20 * time.Second):
		return false
	}
}

// startPoll starts the poller now (so that feeding cannot back up against a
// full event queue) and returns the function that waits for its result.
func (l *liveScreen) startPoll(sentinel rune) func() ([]NEv, bool) {
	type res struct {
		evs []NEv
		ok  bool
	}
	ch := make(chan res, 1)
	go func() {
		var out []NEv
		for {
			ev := l.s.PollEvent()
			if ev == nil {
				ch <- res{out, false}
				return
			}
			if _, isResize := ev.(*tcell.EventResize); isResize {
				continue
			}
			n := normEv(ev)
			if n.T == "key" && ((n.Key == tcell.KeyRune && n.Rune == sentinel) || (sentinel == 0x1d && n.Key == tcell.KeyCtrlRightSq)) {
				ch <- res{out, true}
				return
			}
			out = append(out, n)
		}
	}()
	return func() ([]NEv, bool) {
		select {
		case rr := <-ch:
			ch <- rr // keep it available for a second call
			return rr.evs, rr.ok
		case <-time.After(20 * time.Second):
			return nil, false
		}
	}
}

// sentinelLost decides, after the watchdog of a poll has fired, whether the sentinel can
// still arrive: it cannot if no fed input is left unread and every tcell goroutine
// (reader, main loop, the poller inside PollEvent) is parked identically in two dumps
// one second apart. Only meaningful while nothing else runs in the process.
func (l *liveScreen) sentinelLost() (bool, string) {
	if l.tty.Pending() != 0 {
		return false, ""
	}
	s1, all1 := census.Parked(census.Dump(), nil)
	time.Sleep(time.Second)
	s2, all2 := census.Parked(census.Dump(), nil)
	if all1 && all2 && len(s1) > 0 && strings.Join(s1, ",") == strings.Join(s2, ",") && l.tty.Pending() == 0 {
		return true, strings.Join(s2, ", ")
	}
	return false, ""
}

// judgeSentinel is called right after a poll ended without its sentinel (before Fini):
// lost input with the library structurally idle is a violation, anything else inconclusive.
func (l *liveScreen) judgeSentinel(r *core.Run, ok bool, ctx string) {
	if ok {
		return
	}
	if lost, w := l.sentinelLost(); lost {
		r.Violate("input:sentinel-lost", ctx+": every fed byte was read, yet the key fed last was never delivered and the library is idle ("+w+")", nil)
		return
	}
	r.Inconclusive(ctx + ": sentinel not delivered")
}

func (l *liveScreen) fini() {
	done := make(chan struct{})
	go func() {
		l.tty.BeginFini()
		l.tty.BeginApp()
		l.s.Fini()
		l.tty.EndApp()
		close(done)
	}()
	select {
	case <-done:
	case <-time.After(20 * time.Second):
	}
}

// trickle feeds each item one byte per read, 20 ms apart (so that the whole item takes
// longer than the 50 ms escape timeout while no single gap does), through the real reader and
// main loop, and compares with what the parser makes of the item in one read. Rounds in
// which the harness itself paused too long are discarded, not judged.
func trickle(r *core.Run, ti *terminfo.Terminfo, items [][]byte, label string) {
	d, err := newDecoder(ti, "UTF-8", 20, 5)
	if err != nil {
		r.Inconclusive(err.Error())
		return
	}
	for k, b := range items {
		want, _, _ := d.whole(b)
		ls, err := startScreen(ti, 20, 5, nil)
		if err != nil {
			r.Inconclusive(err.Error())
			return
		}
		wait := ls.startPoll(0x1d)
		maxGap := time.Duration(0)
		last := time.Now()
		mark := lagMark()
		for i := range b {
			if i > 0 {
				time.Sleep(20 * time.Millisecond)
			}
			ls.tty.Feed(b[i : i+1])
			if g := time.Since(last); i > 0 && g > maxGap {
				maxGap = g
			}
			last = time.Now()
		}
		ls.tty.Feed([]byte{0x1d})
		got, ok := wait()
		ls.judgeSentinel(r, ok, label+" trickle")
		ls.fini()
		switch {
		case !ok:
			r.Case("")
		case maxGap > 40*time.Millisecond || lagged(mark):
			r.Count("trickle_rounds_with_compromised_timing", 1)
			r.Case("")
		default:
			r.Case(fmt.Sprintf("%s-trickle|%s|%d", label, ti.Name, k))
			r.Count("trickle_rounds", 1)
			if !evsEq(got, want) {
				r.Violate("pipeline:trickle:"+label, fmt.Sprintf("%s: %q sent one byte per read, 20 ms apart (largest gap %v): delivered %s, in one read it decodes to %s", ti.Name, b, maxGap, evsStr(got), evsStr(want)), nil)
				return
			}
		}
	}
}

// ---- scheduling-latency monitor -------------------------------------------------------------
// Verdicts about the 50 ms escape timeout assume that goroutines run when they are runnable.
// On a loaded machine they may be held up for tens of milliseconds, the library's own reader
// included. One goroutine that only sleeps 2 ms at a time counts the wake-ups that came more
// than 20 ms late; a round during which that happened is not judged.

var (
	lagOnce   sync.Once
	lagEvents atomic.Int64
)

func lagMark() int64 {
	lagOnce.Do(func() {
		go func() {
			for {
				t0 := time.Now()
				time.Sleep(2 * time.Millisecond)
				if time.Since(t0) > 22*time.Millisecond {
					lagEvents.Add(1)
				}
			}
		}()
	})
	return lagEvents.Load()
}

// lagged reports whether goroutines were held up (> 20 ms) since the mark was taken.
func lagged(mark int64) bool { return lagEvents.Load() != mark }
