package props

import (
	"fmt"
	"math/rand/v2"
	"os"
	"runtime"
	"strings"
	"sync/atomic"
	"time"
	"unicode/utf8"
	"verif/vt"

	"github.com/gdamore/tcell/v2"
	xenc "golang.org/x/text/encoding"
	"golang.org/x/text/encoding/charmap"
	"golang.org/x/text/encoding/japanese"
	"golang.org/x/text/encoding/korean"
	"golang.org/x/text/encoding/simplifiedchinese"
	"golang.org/x/text/encoding/traditionalchinese"

	"verif/core"
)

func init() { register("C11", C11) }

// legacyCharsets: the stateless charsets tcell's encoding package registers,
// by the name tcell registers them under, with the x/text encoding the harness
// uses as its own encoder/decoder.  (ISO8859-1 and -9 are provided to tcell by
// gdamore/encoding; charmap's are used here as the independent reference.)
type csDef struct {
	name  string
	enc   xenc.Encoding
	multi bool
}

var legacyCharsets = []csDef{
	{"ISO8859-1", charmap.ISO8859_1, false}, {"ISO8859-2", charmap.ISO8859_2, false}, {"ISO8859-3", charmap.ISO8859_3, false},
	{"ISO8859-4", charmap.ISO8859_4, false}, {"ISO8859-5", charmap.ISO8859_5, false}, {"ISO8859-6", charmap.ISO8859_6, false},
	{"ISO8859-7", charmap.ISO8859_7, false}, {"ISO8859-8", charmap.ISO8859_8, false}, {"ISO8859-9", charmap.ISO8859_9, false},
	{"ISO8859-10", charmap.ISO8859_10, false}, {"ISO8859-13", charmap.ISO8859_13, false}, {"ISO8859-14", charmap.ISO8859_14, false},
	{"ISO8859-15", charmap.ISO8859_15, false}, {"ISO8859-16", charmap.ISO8859_16, false},
	{"KOI8-R", charmap.KOI8R, false}, {"KOI8-U", charmap.KOI8U, false},
	{"EUC-JP", japanese.EUCJP, true}, {"SHIFT_JIS", japanese.ShiftJIS, true}, {"EUC-KR", korean.EUCKR, true},
	{"GBK", simplifiedchinese.GBK, true}, {"GB18030", simplifiedchinese.GB18030, true}, {"Big5", traditionalchinese.Big5, true},
}

// repertoire returns every (rune, encoded bytes) pair of the charset that
// round-trips through the reference decoder and encoder, for printable runes.
func repertoire(cs csDef, r *core.Run) (runes []rune, encs [][]byte) {
	dec := cs.enc.NewDecoder()
	enc := cs.enc.NewEncoder()
	try := func(b []byte) {
		dec.Reset()
		out := make([]byte, 16)
		nOut, nIn, err := dec.Transform(out, b, true)
		if err != nil || nIn != len(b) || nOut == 0 {
			return
		}
		rn, sz := utf8.DecodeRune(out[:nOut])
		if sz != nOut || rn == utf8.RuneError || rn < 0x20 || (rn >= 0x7f && rn < 0xa0) {
			return
		}
		// must encode back to the same bytes (canonical form)
		enc.Reset()
		back := make([]byte, 16)
		n2, _, err := enc.Transform(back, out[:nOut], true)
		if err != nil || string(back[:n2]) != string(b) {
			return
		}
		runes = append(runes, rn)
		encs = append(encs, append([]byte(nil), b...))
	}
	for b := 0x20; b < 0x100; b++ {
		if b == 0x7f {
			continue
		}
		try([]byte{byte(b)})
	}
	if cs.multi {
		for l := 0x81; l < 0x100; l++ {
			for t := 0x30; t < 0x100; t++ {
				try([]byte{byte(l), byte(t)})
			}
		}
		if cs.name == "EUC-JP" {
			for t1 := 0xa1; t1 < 0xff; t1 += 3 {
				for t2 := 0xa1; t2 < 0xff; t2 += 5 {
					try([]byte{0x8f, byte(t1), byte(t2)})
				}
			}
		}
		if cs.name == "GB18030" {
			rg := r.Rand("gb18030")
			for i := 0; i < 4000; i++ {
				try([]byte{byte(0x81 + rg.IntN(4)), byte(0x30 + rg.IntN(10)), byte(0x81 + rg.IntN(0x7e)), byte(0x30 + rg.IntN(10))})
			}
		}
	}
	return
}

func C11(r *core.Run) {
	r.Rule = "text -> bytes with the harness's own encoder -> real parser (verif hook) -> rune events. Exhaustive single characters: every Unicode scalar >= U+0020 (no DEL/C1) in UTF-8; every round-tripping code point of each stateless registered charset (22 charsets; two-byte space enumerated, EUC-JP three-byte and GB18030 four-byte sampled), each in one read and split at every byte boundary. Seeded strings of 1-40 characters per charset under single cuts and random multi-cuts; bracketed paste (one start, text, one end) and focus reports on entries with and without support. distinct by construction for single characters; distinct (charset, string) otherwise."
	r.Assumptions = []string{"golang.org/x/text decoders/encoders define each legacy charset", "ISO-2022-JP and HZ (GB2312 in tcell's registry) are excluded by the statement", "splits are fed with no expiry in between"}
	ti := Pristine("xterm-256color")

	// ---- UTF-8, every scalar ----
	core.Parallel(17*16, func(blk int) {
		d, err := newDecoder(ti, "UTF-8", 80, 24)
		if err != nil {
			r.Inconclusive(err.Error())
			return
		}
		lo, hi := blk*0x1000, (blk+1)*0x1000
		n := int64(0)
		var buf [4]byte
		for cp := lo; cp < hi; cp++ {
			rn := rune(cp)
			if rn < 0x20 || (rn >= 0x7f && rn < 0xa0) || (rn >= 0xd800 && rn < 0xe000) {
				continue
			}
			k := utf8.EncodeRune(buf[:], rn)
			d.modeSet(cp) // text arrives the same way whatever modes the application enabled
			if !c11one(r, d, "UTF-8", rn, buf[:k]) {
				return
			}
			n++
		}
		r.CaseN(n, n)
	})

	// ---- legacy charsets ----
	core.Parallel(len(legacyCharsets), func(ci int) {
		cs := legacyCharsets[ci]
		if tcell.GetEncoding(cs.name) == nil {
			r.Violate("charset-missing:"+cs.name, "charset "+cs.name+" is not registered", nil)
			return
		}
		d, err := newDecoder(ti, cs.name, 80, 24)
		if err != nil {
			r.Inconclusive(cs.name + ": " + err.Error())
			return
		}
		runes, encs := repertoire(cs, r)
		if len(runes) < 90 {
			r.Inconclusive(fmt.Sprintf("%s: repertoire of only %d characters", cs.name, len(runes)))
			return
		}
		r.Count("legacy_codepoints", int64(len(runes)))
		okAll := true
		for i := range runes {
			if !c11one(r, d, cs.name, runes[i], encs[i]) {
				okAll = false
				break
			}
		}
		r.CaseN(int64(len(runes)), int64(len(runes)))
		if !okAll {
			return
		}
		// strings
		ns := r.Pick(400, 40000)
		for si := 0; si < ns; si++ {
			rg := r.Rand("str", cs.name, si)
			c11string(r, d, cs.name, rg, runes, encs, si)
		}
	})
	// UTF-8 strings
	{
		var pool []rune
		for _, s := range []string{"abcXYZ019 ~!@#", "éñüßÆØ", "λжЩ", "世界日本語あアｱ", "한글", "😀🎉", "́̈⃝", "‱←⌘"} {
			pool = append(pool, []rune(s)...)
		}
		var encs [][]byte
		for _, rn := range pool {
			encs = append(encs, []byte(string(rn)))
		}
		ns := r.Pick(3000, 300000)
		core.Parallel(16, func(w int) {
			d, err := newDecoder(ti, "UTF-8", 80, 24)
			if err != nil {
				return
			}
			for si := w; si < ns; si += 16 {
				rg := r.Rand("str", "UTF-8", si)
				c11string(r, d, "UTF-8", rg, pool, encs, si)
			}
		})
	}
	c11pasteFocus(r)
	c11pipeline(r)
	c11trickle(r)
	c11pasteLive(r)
	c11pumps(r)
	// a character (or a paste) split across two prompt reads while the main loop is held up
	stallSplit(r, []byte("\xc3"), []byte("\xa9"), "two-byte character")
	stallSplit(r, []byte("\xf0\x9f"), []byte("\x98\x80"), "four-byte character")
	stallSplit(r, []byte("\x1b[200~h\xc3"), []byte("\xa9llo\x1b[201~"), "bracketed paste")
	c11locales(r)
}

// c11one: one character, whole and split at every byte boundary.
func c11one(r *core.Run, d *decoder, cs string, rn rune, b []byte) bool {
	check := func(parts [][]byte) bool {
		evs, left, pan := d.chunks(parts)
		if pan == nil && left == 0 && len(evs) == 1 && evs[0].T == "key" && evs[0].Key == tcell.KeyRune && evs[0].Rune == rn && evs[0].Mod == 0 {
			return true
		}
		kind := "single"
		if len(parts) > 1 {
			kind = "split"
		}
		sig := fmt.Sprintf("%s:%s:%dbyte", csFamily(cs), kind, len(b))
		if rn == 0xFFFD {
			sig = csFamily(cs) + ":U+FFFD-dropped"
		}
		r.Violate(sig, fmt.Sprintf("%s: character %q (U+%04X, bytes %q) fed as %q is delivered as %s (leftover %d, panic %v)", cs, rn, rn, b, parts, evsStr(evs), left, pan), map[string]any{"charset": cs, "rune": int(rn), "bytes": fmt.Sprintf("%q", b)})
		return rn == 0xFFFD // (a listed finding: keep sweeping the rest of the block)
	}
	if !check([][]byte{b}) {
		return false
	}
	for c := 1; c < len(b); c++ {
		if !check([][]byte{b[:c], b[c:]}) {
			return false
		}
	}
	return true
}

func csFamily(cs string) string {
	switch {
	case cs == "UTF-8":
		return "utf8"
	case strings.HasPrefix(cs, "ISO8859") || strings.HasPrefix(cs, "KOI8"):
		return "singlebyte"
	}
	return "multibyte"
}

func c11string(r *core.Run, d *decoder, cs string, rg *rand.Rand, runes []rune, encs [][]byte, si int) {
	n := 1 + rg.IntN(40)
	var want []rune
	var b []byte
	for i := 0; i < n; i++ {
		var k int
		if rg.IntN(3) == 0 {
			k = rg.IntN(min(95, len(runes))) // ASCII-ish start of the repertoire
		} else {
			k = rg.IntN(len(runes))
		}
		want = append(want, runes[k])
		b = append(b, encs[k]...)
	}
	r.Case(fmt.Sprintf("str|%s|%x", cs, b))
	try := func(parts [][]byte) bool {
		evs, left, pan := d.chunks(parts)
		ok := pan == nil && left == 0 && len(evs) == len(want)
		for i := 0; ok && i < len(want); i++ {
			ok = evs[i].T == "key" && evs[i].Key == tcell.KeyRune && evs[i].Rune == want[i] && evs[i].Mod == 0
		}
		if !ok {
			r.Violate(csFamily(cs)+":string", fmt.Sprintf("%s: text %q (bytes %q) fed as %d chunk(s) is delivered as %s (leftover %d, panic %v)", cs, string(want), b, len(parts), evsStr(evs), left, pan), map[string]any{"charset": cs, "text": string(want)})
		}
		return ok
	}
	if !try([][]byte{b}) {
		return
	}
	for c := 1; c < len(b); c++ {
		if !try(partitionAt(b, []int{c})) {
			return
		}
	}
	for k := 0; k < 6; k++ {
		nc := 1 + rg.IntN(8)
		cuts := make([]int, nc)
		for i := range cuts {
			cuts[i] = 1 + rg.IntN(max(1, len(b)-1))
		}
		if !try(partitionAt(b, cuts)) {
			return
		}
	}
	if si < 1 {
		r.Sample(8, map[string]any{"charset": cs, "text": string(want), "bytes": fmt.Sprintf("%q", b)})
	}
}

func c11pasteFocus(r *core.Run) {
	texts := []string{"hello", "日本語 text", "a", "", "x́y", "😀😀"}
	for _, ti := range AllEntries() {
		ps, pe := tiPasteKeys(ti)
		d, err := newDecoder(ti, "UTF-8", 80, 24)
		if err != nil {
			continue
		}
		for ti2, txt := range texts {
			if ps != "" {
				b := []byte(ps + txt + pe)
				rg := r.Rand("paste", ti.Name, ti2)
				var parts [][][]byte
				parts = append(parts, [][]byte{b})
				for c := 1; c < len(b); c++ {
					parts = append(parts, partitionAt(b, []int{c}))
				}
				parts = append(parts, partitionAt(b, []int{1 + rg.IntN(len(b)-1), 1 + rg.IntN(len(b)-1), 1 + rg.IntN(len(b)-1)}))
				for _, p := range parts {
					evs, left, pan := d.chunks(p)
					want := []NEv{{T: "paste", Flag: true}}
					for _, rn := range txt {
						want = append(want, NEv{T: "key", Key: tcell.KeyRune, Rune: rn})
					}
					want = append(want, NEv{T: "paste", Flag: false})
					if pan != nil || left != 0 || !evsEq(evs, want) {
						r.Violate("paste", fmt.Sprintf("%s: paste %q fed as %d chunk(s) is delivered as %s, expected %s", ti.Name, b, len(p), evsStr(evs), evsStr(want)), map[string]any{"entry": ti.Name, "text": txt})
						break
					}
				}
				r.Case("paste|" + ti.Name + "|" + txt)
			}
		}
		// focus reports (only demanded where the terminal supports focus reporting)
		if ti.Mouse != "" || tiXtermLike(ti) || ti.EnableFocusReporting != "" {
			for _, f := range []struct {
				s  string
				in bool
			}{{"\x1b[I", true}, {"\x1b[O", false}} {
				for _, parts := range [][][]byte{{[]byte(f.s)}, {[]byte(f.s[:1]), []byte(f.s[1:])}, {[]byte(f.s[:2]), []byte(f.s[2:])}, {[]byte("a" + f.s + "b")}} {
					evs, left, pan := d.chunks(parts)
					var want []NEv
					if len(parts) == 1 && len(parts[0]) == 5 {
						want = []NEv{{T: "key", Key: tcell.KeyRune, Rune: 'a'}, {T: "focus", Flag: f.in}, {T: "key", Key: tcell.KeyRune, Rune: 'b'}}
						// a key sequence of this terminal may start with the report (rxvt)
						amb := false
						for k := range keyTable(ti) {
							if strings.HasPrefix(k, f.s) {
								amb = true
							}
						}
						if amb {
							continue
						}
					} else {
						want = []NEv{{T: "focus", Flag: f.in}}
					}
					if pan != nil || left != 0 || !evsEq(evs, want) {
						r.Violate("focus", fmt.Sprintf("%s: focus report fed as %q is delivered as %s, expected %s", ti.Name, parts, evsStr(evs), evsStr(want)), map[string]any{"entry": ti.Name})
					}
				}
				r.Case("focus|" + ti.Name + "|" + f.s)
			}
		}
	}
}

// c11pipeline: typed text through the real inputLoop/keychan/mainLoop/eventQ
// path while the application is not polling (both queues fill, the reader
// parks), then a late poller: the runes must come out exactly as typed.
func c11pipeline(r *core.Run) {
	ti := Pristine("xterm-256color")
	n := r.Pick(6, 60)
	pool := []rune("abcdefghijklmnopqrstuvwxyzABCDEFGHIJKLMNOPQRSTUVWXYZ0123456789 éñüλжЩ世界日本語あア한😀")
	for i := 0; i < n; i++ {
		rg := r.Rand("pipe", i)
		ls, err := startScreen(ti, 80, 24, nil)
		if err != nil {
			r.Inconclusive("pipeline: " + err.Error())
			return
		}
		var chunks [][]byte
		var want []rune
		nchunks := 14 + rg.IntN(10)
		for c := 0; c < nchunks; c++ {
			var b []byte
			k := 1 + rg.IntN(30)
			if c == 0 {
				k = 12 + rg.IntN(10)
			}
			for j := 0; j < k && len(b) < 120; j++ {
				rn := pool[rg.IntN(len(pool))]
				want = append(want, rn)
				b = append(b, []byte(string(rn))...)
			}
			chunks = append(chunks, b)
		}
		var fed int32
		feederDone := make(chan struct{})
		go func() {
			defer close(feederDone)
			for _, c := range chunks {
				ls.tty.Feed(c)
				atomic.AddInt32(&fed, 1)
			}
			ls.tty.Feed([]byte{0x1d})
		}()
		// let the queues fill: wait (in scheduler steps, not time) until the reader is
		// no longer waiting for input although input is on offer
		stalled := false
		for k := 0; k < 2000000 && !stalled; k++ {
			runtime.Gosched()
			select {
			case <-feederDone:
				stalled = true
			default:
			}
			if atomic.LoadInt32(&fed) >= 12 && atomic.LoadInt32(&ls.tty.Reading) == 0 {
				stalled = true
				r.Count("pipeline_backpressure_reached", 1)
			}
		}
		got, ok := ls.pollUntilRune(0x1d)
		<-feederDone
		ls.judgeSentinel(r, ok, fmt.Sprintf("pipeline %d", i))
		ls.fini()
		if !ok {
			continue
		}
		r.Case(fmt.Sprintf("pipe|%d", i))
		good := len(got) == len(want)
		for k := 0; good && k < len(want); k++ {
			good = got[k].T == "key" && got[k].Key == tcell.KeyRune && got[k].Rune == want[k]
		}
		if !good {
			var gs []rune
			for _, e := range got {
				gs = append(gs, e.Rune)
			}
			r.Violate("pipeline:text-mangled", fmt.Sprintf("typed %q in %d reads while the application was not polling; delivered %q", string(want), len(chunks), string(gs)), nil)
		}
	}
}

// c11trickle: a four-byte character arriving one byte per read, 20 ms apart
// (never 50 ms without input, but more than 50 ms in total).
func c11trickle(r *core.Run) {
	ti := Pristine("xterm-256color")
	rounds := r.Pick(8, 100)
	for k := 0; k < rounds; k++ {
		ls, err := startScreen(ti, 20, 5, nil)
		if err != nil {
			r.Inconclusive(err.Error())
			return
		}
		wait := ls.startPoll(0x1d)
		rn := rune(0x1f600 + k)
		b := []byte(string(rn))
		maxGap := time.Duration(0)
		last := time.Now()
		mark := lagMark()
		for i := range b {
			if i > 0 {
				time.Sleep(20 * time.Millisecond)
			}
			ls.tty.Feed(b[i : i+1])
			if g := time.Since(last); i > 0 && g > maxGap {
				maxGap = g
			}
			last = time.Now()
		}
		ls.tty.Feed([]byte{0x1d})
		got, ok := wait()
		ls.judgeSentinel(r, ok, "trickle")
		ls.fini()
		switch {
		case !ok:
			r.Case("")
		case maxGap > 40*time.Millisecond || lagged(mark):
			r.Count("trickle_rounds_with_compromised_timing", 1)
			r.Case("")
		default:
			r.Case(fmt.Sprintf("trickle|%d", k))
			if len(got) != 1 || got[0].T != "key" || got[0].Rune != rn {
				r.Violate("pipeline:trickle", fmt.Sprintf("%q sent one byte per read, 20 ms apart (largest gap %v): delivered %s", rn, maxGap, evsStr(got)), nil)
			}
		}
	}
}

// c11locales: the character set a screen selects from the POSIX locale
// variables (LC_ALL, then LC_CTYPE, then LANG).
func c11locales(r *core.Run) {
	defer func() {
		os.Setenv("LC_ALL", "C.UTF-8")
		os.Unsetenv("LC_CTYPE")
		os.Unsetenv("LANG")
	}()
	cases := []struct{ all, ctype, lang, want string }{
		{"en_US.UTF-8", "", "", "UTF-8"}, {"C.UTF-8", "", "", "UTF-8"}, {"POSIX.UTF-8", "", "", "UTF-8"}, {"", "", "C.UTF-8", "UTF-8"},
		{"C", "", "", "US-ASCII"}, {"POSIX", "", "", "US-ASCII"}, {"", "", "C", "US-ASCII"}, {"en_US", "", "", "UTF-8"}, {"", "", "", "UTF-8"},
		{"ru_RU.KOI8-R", "", "", "KOI8-R"}, {"zh_CN.GBK", "", "", "GBK"}, {"", "ja_JP.EUC-JP", "en_US.UTF-8", "EUC-JP"},
		{"de_DE.ISO8859-15@euro", "", "", "ISO8859-15"}, {"", "", "ko_KR.EUC-KR", "EUC-KR"}, {"zh_TW.Big5", "ja_JP.EUC-JP", "en_US.UTF-8", "Big5"},
		// "-": the variable is exported but empty, which POSIX treats like an unset one
		{"-", "ja_JP.EUC-JP", "en_US.UTF-8", "EUC-JP"}, {"-", "-", "ru_RU.KOI8-R", "KOI8-R"}, {"", "-", "el_GR.ISO8859-7", "ISO8859-7"}, {"-", "", "C", "US-ASCII"},
		// lower-priority variables that contradict the selecting one
		{"ru_RU.KOI8-R", "en_US.UTF-8", "en_US.UTF-8", "KOI8-R"}, {"en_US.UTF-8", "ru_RU.KOI8-R", "ja_JP.EUC-JP", "UTF-8"}, {"", "zh_CN.GBK", "en_US.UTF-8", "GBK"},
	}
	ti := Pristine("xterm-256color")
	for _, c := range cases {
		for k, v := range map[string]string{"LC_ALL": c.all, "LC_CTYPE": c.ctype, "LANG": c.lang} {
			switch v {
			case "":
				os.Unsetenv(k)
			case "-":
				os.Setenv(k, "")
			default:
				os.Setenv(k, v)
			}
		}
		ls, err := startScreen(ti, 10, 3, nil)
		if err != nil {
			r.Violate("locale:init", fmt.Sprintf("LC_ALL=%q LC_CTYPE=%q LANG=%q: Init fails: %v", c.all, c.ctype, c.lang, err), nil)
			continue
		}
		got := ls.s.CharacterSet()
		ls.fini()
		r.Case("locale|" + c.all + "|" + c.ctype + "|" + c.lang)
		if got != c.want {
			r.Violate("locale:charset", fmt.Sprintf("LC_ALL=%q LC_CTYPE=%q LANG=%q selects character set %q, expected %q", c.all, c.ctype, c.lang, got, c.want), nil)
		}
	}
}

// c11pasteLive: pasted text is delivered between a paste-start and a paste-end event whenever the
// application has bracketed paste enabled. The terminal is modelled: it brackets a paste exactly
// when the screen has put it into mode 2004, so a mode lost across Suspend/Resume shows.
func c11pasteLive(r *core.Run) {
	ti := Pristine("xterm-256color")
	for k := 0; k < r.Pick(8, 80); k++ {
		term := vt.New(30, 6)
		var ls *liveScreen
		var err error
		shared := k%2 == 1 // every second screen on the registry's own (shared) description
		if shared {
			ls, err = startScreenShared("xterm-256color", 30, 6, func(b []byte) { term.Feed(b) })
			r.Count("live_paste_rounds_on_shared_description", 1)
		} else {
			ls, err = startScreen(ti, 30, 6, func(b []byte) { term.Feed(b) })
		}
		if err != nil {
			r.Inconclusive(err.Error())
			return
		}
		s := ls.s
		enabled := k%4 != 3
		var trace []string
		ls.tty.BeginApp()
		if enabled {
			s.EnablePaste()
			trace = append(trace, "EnablePaste")
		}
		for c := 0; c < k%3; c++ {
			_ = s.Suspend()
			if c%2 == 1 && enabled {
				s.EnablePaste() // asked again while suspended
				trace = append(trace, "Suspend", "EnablePaste", "Resume")
			} else {
				trace = append(trace, "Suspend", "Resume")
			}
			_ = s.Resume()
		}
		if k%5 == 4 && enabled {
			s.DisablePaste()
			s.EnablePaste()
			trace = append(trace, "DisablePaste", "EnablePaste")
		}
		ls.tty.EndApp()
		var mode bool
		ls.tty.Locked(func() { mode = term.Modes[2004] })
		text := []string{"héllo wörld", "日本語 😀", "plain", "a\tb"}[k%4]
		wait := ls.startPoll(0x1d)
		in := []byte(text)
		if mode {
			in = []byte("\x1b[200~" + text + "\x1b[201~")
		}
		for o := 0; o < len(in); o += 100 {
			ls.tty.Feed(in[o:min(o+100, len(in))])
		}
		ls.tty.Feed([]byte{0x1d})
		got, ok := wait()
		ls.judgeSentinel(r, ok, "live paste")
		ls.fini()
		r.Case(fmt.Sprintf("pastelive|%d", k))
		if !ok {
			continue
		}
		r.Count("live_paste_rounds", 1)
		var want []NEv
		if enabled {
			want = append(want, NEv{T: "paste", Flag: true})
		}
		for _, rn := range text {
			if rn == '\t' {
				want = append(want, NEv{T: "key", Key: tcell.KeyTab, Rune: '\t'})
				continue
			}
			want = append(want, NEv{T: "key", Key: tcell.KeyRune, Rune: rn})
		}
		if enabled {
			want = append(want, NEv{T: "paste", Flag: false})
		}
		if !evsEq(got, want) {
			r.Violate("paste:live", fmt.Sprintf("screen %d of the process (shared registry description: %v): after %v the terminal is in bracketed-paste mode: %v; the user pastes %q: delivered %s, expected %s", k+1, shared, trace, mode, text, evsStr(got), evsStr(want)), nil)
			return
		}
	}
}

// c11pumps: text typed while the application runs ChannelEvents pumps that it cancels (quit)
// and restarts between lines: every character of every line arrives, once.
func c11pumps(r *core.Run) {
	ti := Pristine("xterm-256color")
	for k := 0; k < r.Pick(4, 40); k++ {
		ls, err := startScreen(ti, 30, 6, nil)
		if err != nil {
			r.Inconclusive(err.Error())
			return
		}
		lines := []string{"first: héllo", "second: wörld", "third: 日本語 😀", "fourth"}[:2+k%3]
		verdict := ""
		for li, line := range lines {
			ch := make(chan tcell.Event, 64)
			quit := make(chan struct{})
			pumpDone := make(chan struct{})
			var pumpGid atomic.Int64
			go func() { pumpGid.Store(curGoid()); ls.s.ChannelEvents(ch, quit); close(pumpDone) }()
			if k%2 == 1 {
				for i := 0; i < 300; i++ { // the pump is idle, waiting for an event
					runtime.Gosched()
				}
			}
			ls.tty.Feed([]byte(line + "\x1d"))
			var got []rune
			deadline := time.After(20 * time.Second)
			done := false
			for !done && verdict == "" {
				select {
				case ev, open := <-ch:
					if !open {
						verdict = fmt.Sprintf("the channel of pump %d was closed without quit or Fini", li+1)
						break
					}
					if kev, isKey := ev.(*tcell.EventKey); isKey {
						if kev.Key() == tcell.KeyCtrlRightSq {
							done = true
						} else if kev.Key() == tcell.KeyRune {
							got = append(got, kev.Rune())
						}
					}
				case <-deadline:
					if lost, w := ls.sentinelLost(); lost {
						verdict = fmt.Sprintf("line %d: only %q of %q arrived and the library is idle (%s)", li+1, string(got), line, w)
					} else {
						verdict = "INCONCLUSIVE"
					}
				}
			}
			if verdict == "" && string(got) != line {
				verdict = fmt.Sprintf("line %d typed as %q arrived as %q", li+1, line, string(got))
			}
			close(quit)
			if verdict == "" {
				// the cancelled pump returns (bounded: it only has to notice quit)
				select {
				case <-pumpDone:
				case <-time.After(20 * time.Second):
					// structural: the pump's goroutine is parked inside ChannelEvents although quit is closed
					if goroutineParkedIn("ChannelEvents", pumpGid.Load()) {
						verdict = fmt.Sprintf("pump %d did not return after quit was closed: its goroutine is parked inside ChannelEvents", li+1)
					} else {
						verdict = "INCONCLUSIVE"
					}
				}
			}
			if verdict != "" {
				break
			}
		}
		ls.fini()
		r.Case(fmt.Sprintf("pumps|%d", k))
		r.Count("pump_rounds", 1)
		if verdict == "INCONCLUSIVE" {
			r.Inconclusive("pump round: watchdog")
		} else if verdict != "" {
			r.Violate("pipeline:channelevents-restart", "ChannelEvents pumps cancelled and restarted between lines: "+verdict, nil)
			return
		}
	}
}
