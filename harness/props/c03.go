package props

import (
	"fmt"
	"reflect"
	"regexp"
	"runtime"
	"sort"
	"strconv"
	"strings"

	"github.com/gdamore/tcell/v2"
	"github.com/gdamore/tcell/v2/terminfo"

	"verif/core"
)

func init() { register("C03", C03) }

type km struct {
	k tcell.Key
	m tcell.ModMask
}

func (a km) String() string { return NEv{T: "key", Key: a.k, Mod: a.m}.String() }

var baseKeys = map[string]tcell.Key{
	"Backspace": tcell.KeyBackspace, "Insert": tcell.KeyInsert, "Delete": tcell.KeyDelete, "Home": tcell.KeyHome,
	"End": tcell.KeyEnd, "Help": tcell.KeyHelp, "PgUp": tcell.KeyPgUp, "PgDn": tcell.KeyPgDn, "Up": tcell.KeyUp,
	"Down": tcell.KeyDown, "Left": tcell.KeyLeft, "Right": tcell.KeyRight, "Backtab": tcell.KeyBacktab,
	"Exit": tcell.KeyExit, "Clear": tcell.KeyClear, "Print": tcell.KeyPrint, "Cancel": tcell.KeyCancel,
}

var fieldRe = regexp.MustCompile(`^Key(Ctrl|Alt|Meta)?(Shf)?([A-Z][A-Za-z]*?)([0-9]*)$`)

// fieldMeaning parses a Terminfo field name such as KeyCtrlShfRight or KeyF17
// into the set of (key, modifiers) the description assigns.
func fieldMeaning(name string) []km {
	m := fieldRe.FindStringSubmatch(name)
	if m == nil {
		return nil
	}
	var mod tcell.ModMask
	switch m[1] {
	case "Ctrl":
		mod |= tcell.ModCtrl
	case "Alt":
		mod |= tcell.ModAlt
	case "Meta":
		mod |= tcell.ModMeta
	}
	if m[2] != "" {
		mod |= tcell.ModShift
	}
	if m[3] == "F" && m[4] != "" {
		n, _ := strconv.Atoi(m[4])
		if n < 1 || n > 64 {
			return nil
		}
		out := []km{{tcell.KeyF1 + tcell.Key(n-1), mod}}
		if n > 12 && mod == 0 {
			// F13.. are the shifted / control / alt aliases of F1..F12
			base := tcell.KeyF1 + tcell.Key((n-1)%12)
			alias := []tcell.ModMask{0, tcell.ModShift, tcell.ModCtrl, tcell.ModCtrl | tcell.ModShift, tcell.ModAlt, tcell.ModAlt | tcell.ModShift}
			out = append(out, km{base, alias[(n-1)/12]})
		}
		return out
	}
	if k, ok := baseKeys[m[3]+m[4]]; ok {
		return []km{{k, mod}}
	}
	return nil
}

// descKeys returns sequence -> acceptance set, from the entry's own fields.
func descKeys(ti *terminfo.Terminfo) map[string][]km {
	out := map[string][]km{}
	v := reflect.ValueOf(ti).Elem()
	for i := 0; i < v.NumField(); i++ {
		f := v.Type().Field(i)
		if f.Type.Kind() != reflect.String || !strings.HasPrefix(f.Name, "Key") {
			continue
		}
		s := v.Field(i).String()
		if s == "" {
			continue
		}
		for _, a := range fieldMeaning(f.Name) {
			out[s] = append(out[s], a)
		}
	}
	if _, ok := out["\x7f"]; ok {
		out["\x7f"] = []km{{tcell.KeyBackspace2, 0}}
	}
	return out
}

func inSet(set []km, k tcell.Key, m tcell.ModMask) bool {
	for _, a := range set {
		if a.k == k && a.m == m {
			return true
		}
	}
	return false
}

func xtermMods(m int) tcell.ModMask {
	v := m - 1
	var out tcell.ModMask
	if v&1 != 0 {
		out |= tcell.ModShift
	}
	if v&2 != 0 {
		out |= tcell.ModAlt
	}
	if v&4 != 0 {
		out |= tcell.ModCtrl
	}
	if v&8 != 0 {
		out |= tcell.ModMeta
	}
	return out
}

var csiTilde = regexp.MustCompile(`^\x1b\[([0-9]+)~$`)
var ss3 = regexp.MustCompile(`^\x1bO([A-Za-z])$`)

func C03(r *core.Run) {
	r.Rule = "exhaustive over the database (enumerated through the verif hook): every non-empty Key* field of every entry decoded alone (x8 fresh parsers for map-order), with the ESC (Alt) prefix, every control byte 0..31, lone ESC, lone DEL; on ModifiersXTerm entries every cursor/editing/function key x modifier parameter 2..16 from an independent xterm encoder; prefix-freedom of the description's sequences and of the table tcell builds; ordered pairs (quick: seeded sample, thorough: all) and seeded triples of sequences decode to the concatenation. distinct = distinct (entry, byte string)."
	r.Assumptions = []string{"the field name states the key and modifiers the description assigns (KeyCtrlShfRight = Right+Ctrl+Shift; KeyF13..F63 = F1..F12 with Shift/Ctrl/Ctrl+Shift/Alt/Alt+Shift, either spelling accepted)", "xterm modifier parameter m encodes m-1 as Shift=1 Alt=2 Ctrl=4 Meta=8"}
	entries := AllEntries()
	r.Exhaustive = !r.Quick()
	core.Parallel(len(entries), func(ei int) {
		ti := entries[ei]
		c03entry(r, ti, ei)
	})
	// aliases resolve to the same entry, so they are covered by their target
	r.Set("entries", len(entries))
	c03pipeline(r)
}

// c03pipeline: "concatenated sequences decode to the concatenation of their events" through
// the real reader and main loop: runs of three different keys arrive in three reads while
// the application is not polling (event queue full, later reads waiting in the chunk
// queue); polling starts only when every byte has been read.
func c03pipeline(r *core.Run) {
	for _, name := range []string{"xterm-256color", "rxvt-unicode", "vt220", "linux", "wy60", "tmux", "st-256color", "sun-color"} {
		ti := Pristine(name)
		if ti == nil {
			continue
		}
		type ks struct {
			k tcell.Key
			s string
		}
		all := []ks{{tcell.KeyUp, ti.KeyUp}, {tcell.KeyDown, ti.KeyDown}, {tcell.KeyLeft, ti.KeyLeft}, {tcell.KeyRight, ti.KeyRight}, {tcell.KeyHome, ti.KeyHome}, {tcell.KeyF1, ti.KeyF1}, {tcell.KeyF5, ti.KeyF5}, {tcell.KeyPgUp, ti.KeyPgUp}}
		var keys []ks
		for _, k := range all {
			if k.s != "" {
				keys = append(keys, k)
			}
		}
		if len(keys) < 3 {
			continue
		}
		for round := 0; round < r.Pick(3, 40); round++ {
			rg := r.Rand("c03pipe", name, round)
			ls, err := startScreen(ti, 40, 10, nil)
			if err != nil {
				r.Inconclusive(err.Error())
				return
			}
			var want []NEv
			var allBytes []byte
			nreads := 3 + rg.IntN(4)
			for i := 0; i < nreads; i++ {
				k := keys[(round+i*(1+rg.IntN(2)))%len(keys)]
				n := 1 + 120/len(k.s)
				if n > 30 {
					n = 30
				}
				ls.tty.Feed([]byte(strings.Repeat(k.s, n)))
				allBytes = append(allBytes, []byte(strings.Repeat(k.s, n))...)
			}
			// expected: what the parser makes of the same bytes in one read (its agreement with
			// the description is decided by the sweeps above)
			if d, err := newDecoder(ti, "UTF-8", 40, 10); err == nil {
				want, _, _ = d.whole(allBytes)
			}
			ls.tty.Feed([]byte{0x1d})
			// nobody polls until the reader has taken everything it can
			for i := 0; i < 200000 && ls.tty.Pending() > 0; i++ {
				runtime.Gosched()
			}
			got, ok := ls.pollUntilRune(0x1d)
			ls.judgeSentinel(r, ok, "key pipeline "+name)
			ls.fini()
			if !ok {
				continue
			}
			r.Case(fmt.Sprintf("pipe|%s|%d", name, round))
			r.Count("pipeline_histories", 1)
			if !evsEq(got, want) {
				r.Violate("pipeline:concatenation", fmt.Sprintf("%s: %d runs of key sequences arriving in %d reads while the application was not polling were delivered as %s, expected %s", name, nreads, nreads, short(evsStr(got), 600), short(evsStr(want), 600)), nil)
				break
			}
		}
	}
}

func c03entry(r *core.Run, ti *terminfo.Terminfo, ei int) {
	desc := descKeys(ti)
	table := keyTable(ti)
	var seqs []string
	for s := range desc {
		seqs = append(seqs, s)
	}
	sort.Strings(seqs)
	fail := func(sig, what string, rep any) {
		r.Violate(sig, ti.Name+": "+what, map[string]any{"entry": ti.Name, "case": rep})
	}
	d, derr := newDecoder(ti, "UTF-8", 80, 24)
	if derr != nil {
		r.Inconclusive(ti.Name + ": " + derr.Error())
		return
	}
	dec := func(s string) ([]NEv, bool) {
		evs, left, pan := d.whole([]byte(s))
		if pan != nil {
			fail("panic", fmt.Sprintf("decoding %q panicked: %v", s, pan), s)
			return nil, false
		}
		if left != 0 {
			fail("leftover", fmt.Sprintf("decoding %q left %d bytes buffered", s, left), s)
			return nil, false
		}
		return evs, true
	}
	// --- prefix freedom (description and built table) ---
	for i, a := range seqs {
		for j, b := range seqs {
			if i != j && strings.HasPrefix(b, a) {
				fail("prefix:description", fmt.Sprintf("defined sequence %q is a proper prefix of %q", a, b), []string{a, b})
			}
		}
	}
	var tseqs []string
	for s := range table {
		tseqs = append(tseqs, s)
	}
	sort.Strings(tseqs)
	for i, a := range tseqs {
		for j, b := range tseqs {
			if i != j && strings.HasPrefix(b, a) {
				fail("prefix:table", fmt.Sprintf("table sequence %q is a proper prefix of %q", a, b), []string{a, b})
			}
		}
	}
	r.CaseN(int64(len(seqs)+len(tseqs)), 0)

	// --- every defined sequence, alone and with the Alt prefix ---
	for _, s := range seqs {
		acc := desc[s]
		for rep := 0; rep < 8; rep++ {
			evs, ok := dec(s)
			if !ok {
				break
			}
			if len(evs) != 1 || evs[0].T != "key" || !inSet(acc, evs[0].Key, evs[0].Mod) {
				fail("single:"+keyClass(s, acc), fmt.Sprintf("sequence %q (assigned %v) decodes to %s", s, acc, evsStr(evs)), s)
				break
			}
		}
		r.Case(ti.Name + "|" + s)
		if _, clash := desc["\x1b"+s]; !clash && s != "\x1b" {
			evs, ok := dec("\x1b" + s)
			if ok {
				good := len(evs) == 1 && evs[0].T == "key"
				if good {
					good = false
					for _, a := range acc {
						if evs[0].Key == a.k && evs[0].Mod == a.m|tcell.ModAlt {
							good = true
						}
					}
				}
				if !good {
					fail("alt-prefix:"+keyClass(s, acc), fmt.Sprintf("ESC + %q (assigned %v) decodes to %s, expected the same key with Alt added", s, acc, evsStr(evs)), "\x1b"+s)
				} else if evs2, left2, pan2 := d.chunks([][]byte{{0x1b}, []byte(s)}); pan2 != nil || left2 != 0 || !evsEq(evs2, evs) {
					// the ESC and the key in two reads, no timeout in between
					fail("alt-prefix:split-read:"+keyClass(s, acc), fmt.Sprintf("ESC and %q arriving in two reads (no timeout in between) decode to %s (leftover %d, panic %v); in one read they decode to %s", s, evsStr(evs2), left2, pan2, evsStr(evs)), "\x1b"+s)
				}
			}
			r.Case(ti.Name + "|alt|" + s)
		}
	}
	// --- the same sequences under every combination of application modes ---
	for ms := 1; ms < 8; ms++ {
		for _, sq := range seqs {
			d.modeSet(0)
			base, _, _ := d.whole([]byte(sq))
			d.modeSet(ms)
			got, left, pan := d.whole([]byte(sq))
			if pan != nil || left != 0 || !evsEq(got, base) {
				fail("mode-dependent:"+keyClass(sq, desc[sq]), fmt.Sprintf("sequence %q decodes to %s with no application mode enabled but to %s (leftover %d, panic %v) under mode set %d (mouse/paste/focus)", sq, evsStr(base), evsStr(got), left, pan, ms), sq)
				break
			}
		}
	}
	d.modeSet(0)
	// --- control bytes ---
	for c := 0; c < 32; c++ {
		s := string([]byte{byte(c)})
		if _, defined := desc[s]; defined {
			continue
		}
		want := km{tcell.Key(c), tcell.ModCtrl}
		switch c {
		case 8, 9, 13, 27:
			want.m = 0
		}
		evs, ok := dec(s)
		if ok && (len(evs) != 1 || evs[0].T != "key" || evs[0].Key != want.k || evs[0].Mod != want.m) {
			fail("ctrl-byte", fmt.Sprintf("control byte %#02x decodes to %s, expected %v", c, evsStr(evs), want), c)
		}
		r.Case(ti.Name + "|ctrl|" + s)
		if c != 27 {
			if _, clash := desc["\x1b"+s]; !clash {
				evs, ok := dec("\x1b" + s)
				if ok && (len(evs) != 1 || evs[0].T != "key" || evs[0].Key != want.k || evs[0].Mod != want.m|tcell.ModAlt) {
					fail("alt-prefix:ctrl-byte", fmt.Sprintf("ESC + control byte %#02x decodes to %s, expected %v with Alt added", c, evsStr(evs), want), c)
				}
				r.Case(ti.Name + "|altctrl|" + s)
			}
		}
	}
	if _, defined := desc["\x7f"]; !defined {
		evs, ok := dec("\x7f")
		if ok && (len(evs) != 1 || evs[0].Key != tcell.KeyBackspace2 || evs[0].Mod != 0) {
			fail("del", fmt.Sprintf("DEL decodes to %s, expected Backspace2", evsStr(evs)), nil)
		}
		r.Case(ti.Name + "|del")
	}
	// printable with Alt
	for _, ch := range "aZ5~ " {
		evs, ok := dec("\x1b" + string(ch))
		if _, clash := desc["\x1b"+string(ch)]; clash {
			continue
		}
		partialOfKey := false
		for s := range desc {
			if strings.HasPrefix(s, "\x1b"+string(ch)) {
				partialOfKey = true
			}
		}
		if ok && !partialOfKey {
			if evs2, left2, pan2 := d.chunks([][]byte{{0x1b}, []byte(string(ch))}); pan2 != nil || left2 != 0 || !evsEq(evs2, evs) {
				fail("alt-prefix:split-read:rune", fmt.Sprintf("ESC and %q arriving in two reads (no timeout in between) decode to %s (leftover %d, panic %v); in one read they decode to %s", ch, evsStr(evs2), left2, pan2, evsStr(evs)), string(ch))
			}
		}
		if ok && !partialOfKey && (len(evs) != 1 || evs[0].Key != tcell.KeyRune || evs[0].Rune != ch || evs[0].Mod != tcell.ModAlt) {
			fail("alt-prefix:rune", fmt.Sprintf("ESC %q decodes to %s, expected the rune with Alt", ch, evsStr(evs)), string(ch))
		}
		r.Case(ti.Name + "|altrune|" + string(ch))
	}

	// ESC followed by a character that could also begin a key sequence ('[', 'O', '?'), and then
	// nothing until the timeout: the character with Alt, as for any other key
	for _, ch := range "[O?" {
		if _, clash := desc["\x1b"+string(ch)]; clash {
			continue
		}
		evs, ok := dec("\x1b" + string(ch))
		if ok && (len(evs) != 1 || evs[0].Key != tcell.KeyRune || evs[0].Rune != ch || evs[0].Mod != tcell.ModAlt) {
			fail("alt-prefix:rune-that-starts-sequences", fmt.Sprintf("ESC %q and then the escape timeout decode to %s, expected the rune with Alt", ch, evsStr(evs)), string(ch))
		}
		r.Case(ti.Name + "|altrune|" + string(ch))
	}
	// ESC followed by a non-ASCII character, the read boundary inside the character
	for _, ch := range "é世😀" {
		b := []byte(string(ch))
		evs, ok := dec("\x1b" + string(ch))
		if !ok {
			continue
		}
		if len(evs) != 1 || evs[0].Key != tcell.KeyRune || evs[0].Rune != ch || evs[0].Mod != tcell.ModAlt {
			fail("alt-prefix:rune", fmt.Sprintf("ESC %q decodes to %s, expected the rune with Alt", ch, evsStr(evs)), string(ch))
			continue
		}
		for cut := 1; cut < len(b); cut++ {
			parts := [][]byte{append([]byte{0x1b}, b[:cut]...), b[cut:]}
			if evs2, left2, pan2 := d.chunks(parts); pan2 != nil || left2 != 0 || !evsEq(evs2, evs) {
				fail("alt-prefix:split-read:multibyte", fmt.Sprintf("ESC and %q arriving as %q (no timeout in between) decode to %s (leftover %d, panic %v); in one read they decode to %s", ch, parts, evsStr(evs2), left2, pan2, evsStr(evs)), string(ch))
				break
			}
			parts = [][]byte{{0x1b}, b[:cut], b[cut:]}
			if evs2, left2, pan2 := d.chunks(parts); pan2 != nil || left2 != 0 || !evsEq(evs2, evs) {
				fail("alt-prefix:split-read:multibyte", fmt.Sprintf("ESC and %q arriving as %q (no timeout in between) decode to %s (leftover %d, panic %v); in one read they decode to %s", ch, parts, evsStr(evs2), left2, pan2, evsStr(evs)), string(ch))
				break
			}
		}
		r.Case(ti.Name + "|altrune|" + string(ch))
	}

	// --- xterm modifiers ---
	var modSeqs []string
	modWant := map[string]km{}
	if ti.Modifiers == terminfo.ModifiersXTerm {
		type bk struct {
			k tcell.Key
			s string
		}
		bases := []bk{{tcell.KeyUp, ti.KeyUp}, {tcell.KeyDown, ti.KeyDown}, {tcell.KeyLeft, ti.KeyLeft}, {tcell.KeyRight, ti.KeyRight},
			{tcell.KeyHome, ti.KeyHome}, {tcell.KeyEnd, ti.KeyEnd}, {tcell.KeyInsert, ti.KeyInsert}, {tcell.KeyDelete, ti.KeyDelete},
			{tcell.KeyPgUp, ti.KeyPgUp}, {tcell.KeyPgDn, ti.KeyPgDn}}
		fk := []string{ti.KeyF1, ti.KeyF2, ti.KeyF3, ti.KeyF4, ti.KeyF5, ti.KeyF6, ti.KeyF7, ti.KeyF8, ti.KeyF9, ti.KeyF10, ti.KeyF11, ti.KeyF12}
		for i, s := range fk {
			bases = append(bases, bk{tcell.KeyF1 + tcell.Key(i), s})
		}
		for _, b := range bases {
			for m := 2; m <= 16; m++ {
				var s string
				if mm := csiTilde.FindStringSubmatch(b.s); mm != nil {
					s = fmt.Sprintf("\x1b[%s;%d~", mm[1], m)
				} else if mm := ss3.FindStringSubmatch(b.s); mm != nil {
					s = fmt.Sprintf("\x1b[1;%d%s", m, mm[1])
				} else {
					continue
				}
				want := km{b.k, xtermMods(m)}
				modSeqs = append(modSeqs, s)
				modWant[s] = want
				evs, ok := dec(s)
				if acc, defined := desc[s]; defined && ok && len(evs) == 1 && evs[0].T == "key" && inSet(acc, evs[0].Key, evs[0].Mod) {
					// the description itself assigns this sequence to a key: that wins
					continue
				}
				if ok && (len(evs) != 1 || evs[0].T != "key" || evs[0].Key != want.k || evs[0].Mod != want.m) {
					fail(fmt.Sprintf("xterm-modifier:m=%d", m), fmt.Sprintf("xterm sequence %q (base %q, modifier parameter %d) decodes to %s, expected %v", s, b.s, m, evsStr(evs), want), s)
				}
				r.Case(ti.Name + "|mod|" + s)
				// and with the Alt prefix
				evs, ok = dec("\x1b" + s)
				if ok && (len(evs) != 1 || evs[0].T != "key" || evs[0].Key != want.k || evs[0].Mod != want.m|tcell.ModAlt) {
					fail("alt-prefix:xterm-modifier", fmt.Sprintf("ESC + %q decodes to %s, expected %v with Alt added", s, evsStr(evs), want), s)
				}
			}
		}
	}

	// --- concatenations ---
	all := append([]string{}, seqs...)
	for _, s := range modSeqs {
		if _, ok := desc[s]; !ok {
			all = append(all, s)
		}
	}
	accOf := func(s string) []km {
		if w, ok := modWant[s]; ok {
			return append([]km{w}, desc[s]...)
		}
		return desc[s]
	}
	checkConcat := func(parts []string) {
		evs, ok := dec(strings.Join(parts, ""))
		if !ok {
			return
		}
		good := len(evs) == len(parts)
		for i := 0; good && i < len(parts); i++ {
			good = evs[i].T == "key" && inSet(accOf(parts[i]), evs[i].Key, evs[i].Mod)
		}
		if !good {
			fail("concatenation", fmt.Sprintf("sequences %q decode together as %s", parts, evsStr(evs)), parts)
		}
	}
	if len(all) > 0 {
		if r.Quick() {
			rg := r.Rand("pairs", ti.Name)
			for i := 0; i < 20000; i++ {
				a, b := all[rg.IntN(len(all))], all[rg.IntN(len(all))]
				checkConcat([]string{a, b})
			}
			r.CaseN(20000, 20000)
		} else {
			for _, a := range all {
				for _, b := range all {
					checkConcat([]string{a, b})
				}
			}
			n := int64(len(all)) * int64(len(all))
			r.CaseN(n, n)
		}
		rg := r.Rand("triples", ti.Name)
		nt := r.Pick(5000, 100000)
		for i := 0; i < nt; i++ {
			checkConcat([]string{all[rg.IntN(len(all))], all[rg.IntN(len(all))], all[rg.IntN(len(all))]})
		}
		r.CaseN(int64(nt), int64(nt))
	}
	if ei < 3 && len(seqs) > 0 {
		r.Sample(6, map[string]any{"entry": ti.Name, "defined_sequences": len(seqs), "table_size": len(table), "xterm_modifier_sequences": len(modSeqs), "example": fmt.Sprintf("%q -> %v", seqs[0], desc[seqs[0]])})
	}
}

func keyClass(s string, acc []km) string {
	if len(acc) == 0 {
		return "unknown"
	}
	a := acc[0]
	switch {
	case a.k >= tcell.KeyF1 && a.k <= tcell.KeyF64:
		if a.k > tcell.KeyF12 {
			return "fkey-alias"
		}
		return "fkey"
	case a.m != 0:
		return "modified-cursor-key"
	}
	if len(s) == 1 {
		return "single-byte-key"
	}
	return "cursor-or-editing-key"
}
