package props

import (
	"bytes"
	"fmt"
	"os"
	"sort"
	"strconv"
	"strings"
	"sync"
	"time"

	"github.com/gdamore/tcell/v2/terminfo"

	"verif/core"
	"verif/tiref"
	"verif/vt"
)

func init() { register("C15", C15) }

// family the harness assigns to an entry for cursor addressing
func cupFamily(name string) string {
	switch name {
	case "vt52":
		return "vt52"
	case "wy50", "wy60":
		return "wyse"
	case "hpterm":
		return "hp"
	}
	return "ansi"
}

// decodeCup decodes a cursor-addressing string (padding already stripped).
func decodeCup(fam string, b []byte) (col, row int, ok bool) {
	switch fam {
	case "ansi":
		s := string(b)
		if !strings.HasPrefix(s, "\x1b[") || !strings.HasSuffix(s, "H") {
			return
		}
		p := strings.Split(s[2:len(s)-1], ";")
		if len(p) != 2 {
			return
		}
		r, e1 := strconv.Atoi(p[0])
		c, e2 := strconv.Atoi(p[1])
		if e1 != nil || e2 != nil || strconv.Itoa(r) != p[0] || strconv.Itoa(c) != p[1] {
			return
		}
		return c - 1, r - 1, true
	case "vt52", "wyse":
		lead := byte('Y')
		if fam == "wyse" {
			lead = '='
		}
		if len(b) != 4 || b[0] != 0x1b || b[1] != lead {
			return
		}
		return int(b[3]) - 32, int(b[2]) - 32, true
	case "hp":
		s := string(b)
		if !strings.HasPrefix(s, "\x1b&a") || !strings.HasSuffix(s, "C") {
			return
		}
		p := strings.Split(s[3:len(s)-1], "y")
		if len(p) != 2 {
			return
		}
		r, e1 := strconv.Atoi(p[0])
		c, e2 := strconv.Atoi(p[1])
		if e1 != nil || e2 != nil {
			return
		}
		return c, r, true
	}
	return
}

func tputs(ti *terminfo.Terminfo, s string) []byte {
	var buf bytes.Buffer
	ti.TPuts(&buf, s)
	return buf.Bytes()
}

func C15(r *core.Run) {
	r.Rule = "(1) padding: every string up to length L over the alphabet {$ < > . 0 1 5 * / a ESC} (exhaustive, distinct by construction; non-trivial = contains \"$<\") plus seeded random strings to length 40, TPuts output compared with an independent padding grammar; (2) TGoto for every database entry x (col,row) in 0..300^2 decoded by the addressing family the harness assigns from the entry name (exhaustive over expressible positions); (3) TColor(fg,bg) for -1..300^2 per entry interpreted by the reference SGR interpreter (exhaustive); plus two sound timing directions (a sleep is never shorter than specified when a pad character exists; no multi-second sleep when none exists)."
	r.Assumptions = []string{"padding grammar $<digits[.digit][*][/]> with * and / in either order", "ANSI CUP / VT52 ESC Y / Wyse ESC = / HP ESC &a as the four addressing conventions", "palette convention: indices >= 256 on direct-colour entries are skipped"}
	r.Exhaustive = true
	noPad := &terminfo.Terminfo{}

	// ---- (1) padding ------------------------------------------------------
	alpha := []byte{'$', '<', '>', '.', '0', '1', '5', '*', '/', 'a', 0x1b}
	maxL := r.Pick(6, 7)
	checkPad := func(s string) {
		want, _, _ := tiref.StripPadding(s)
		got := tputs(noPad, s)
		if !bytes.Equal(got, want) {
			shape := "wellformed-spec-kept"
			if len(got) < len(want) {
				shape = "malformed-spec-stripped"
			}
			r.Violate("padding:"+shape, fmt.Sprintf("TPuts(%q) wrote %q, expected %q", s, got, want), map[string]any{"input": s})
		}
	}
	for L := 0; L <= maxL; L++ {
		total := 1
		for i := 0; i < L; i++ {
			total *= len(alpha)
		}
		nt := int64(0)
		chunks := 64
		cnt := make([]int64, chunks)
		core.Parallel(chunks, func(ch int) {
			buf := make([]byte, L)
			for idx := ch; idx < total; idx += chunks {
				v := idx
				for k := 0; k < L; k++ {
					buf[k] = alpha[v%len(alpha)]
					v /= len(alpha)
				}
				s := string(buf)
				if strings.Contains(s, "$<") {
					cnt[ch]++
				}
				checkPad(s)
			}
		})
		for _, c := range cnt {
			nt += c
		}
		r.CaseN(int64(total), nt)
	}
	nrand := r.Pick(200000, 5000000)
	core.Parallel(16, func(w int) {
		for i := w; i < nrand; i += 16 {
			rg := r.Rand("pad", i)
			n := 8 + rg.IntN(33)
			b := make([]byte, n)
			for k := range b {
				switch rg.IntN(6) {
				case 0:
					b[k] = '$'
				case 1:
					b[k] = '<'
				case 2:
					b[k] = '>'
				case 3:
					b[k] = byte('0' + rg.IntN(10))
				default:
					b[k] = alpha[rg.IntN(len(alpha))]
				}
			}
			s := string(b)
			checkPad(s)
			if strings.Contains(s, "$<") {
				r.Case("pad|" + s)
			} else {
				r.Case("")
			}
			if i < 3 {
				want, _, n := tiref.StripPadding(s)
				r.Sample(8, map[string]any{"kind": "padding", "input": s, "expected": string(want), "specs": n})
			}
		}
	})
	// database strings: output == reference strip
	for _, ti := range AllEntries() {
		tp := CopyTI(ti)
		tp.PadChar = ""
		for f, v := range StringFields(ti) {
			if strings.Contains(v, "$<") {
				want, _, _ := tiref.StripPadding(v)
				if got := tputs(tp, v); !bytes.Equal(got, want) {
					r.Violate("padding:database", fmt.Sprintf("%s.%s: TPuts(%q) wrote %q, expected %q", ti.Name, f, v, got, want), nil)
				}
				r.Count("database_strings_with_padding", 1)
			}
		}
	}
	// timing, sound directions only
	padTI := &terminfo.Terminfo{PadChar: "\x00"}
	for _, ms := range []int{5, 20, 35} {
		s := fmt.Sprintf("ab$<%d>cd$<%d/>", ms, ms)
		t0 := time.Now()
		tputs(padTI, s)
		if el := time.Since(t0); el < time.Duration(2*ms)*time.Millisecond {
			r.Violate("padding:delay-too-short", fmt.Sprintf("TPuts(%q) with a pad character returned after %v, specified %dms", s, el, 2*ms), nil)
		}
		r.Count("timing_cases", 1)
	}
	// several specifications in one string, fractional and flagged ones first: each counts in
	// full (lower bound only: a sleep is never shorter than specified)
	for _, c := range []struct {
		s  string
		ms float64
	}{
		{"a$<0.5>b$<40>c", 40.5}, {"a$<1.5*>b$<30/>c$<20>", 51.5}, {"$<2.5/>x$<0.5>y$<25*>", 28}, {"$<30>$<0.1>$<30>", 60.1}, {"p$<10.0>q$<25>", 35},
	} {
		for _, tp := range []*terminfo.Terminfo{padTI, CopyTI(Pristine("vt100")), CopyTI(Pristine("linux"))} {
			if tp.PadChar == "" {
				continue
			}
			t0 := time.Now()
			tputs(tp, c.s)
			if el := time.Since(t0); el < time.Duration(c.ms*float64(time.Millisecond)) {
				r.Violate("padding:delay-too-short:several-specs", fmt.Sprintf("TPuts(%q) on %q (pad character) returned after %v, the specifications add up to %.1fms", c.s, tp.Name, el, c.ms), nil)
			}
			r.Count("timing_cases", 1)
		}
	}
	{
		// every well-formed spelling of a 20 s delay, on descriptions without a pad
		// character (an empty one and the registered xterm): none may sleep (10 s bound)
		var specs []string
		for _, num := range []string{"20000", "20000.0", "20000.5"} {
			for _, fl := range []string{"", "*", "/", "*/", "/*"} {
				specs = append(specs, "x$<"+num+fl+">y")
			}
		}
		nopads := []*terminfo.Terminfo{noPad, CopyTI(Pristine("xterm-256color")), CopyTI(Pristine("st-256color"))}
		var twg sync.WaitGroup
		for ti, tp := range nopads {
			if tp.PadChar != "" {
				continue
			}
			for _, sp := range specs {
				twg.Add(1)
				go func(ti int, tp *terminfo.Terminfo, sp string) {
					defer twg.Done()
					t0 := time.Now()
					tputs(tp, sp)
					if el := time.Since(t0); el > 10*time.Second {
						r.Violate("padding:delay-without-padchar", fmt.Sprintf("TPuts(%q) on description %d (no pad character) slept %v", sp, ti, el), nil)
					}
					r.Count("timing_cases", 1)
				}(ti, tp, sp)
			}
		}
		twg.Wait()
		t0 := time.Now()
		tputs(noPad, "x$<20000>y")
		if el := time.Since(t0); el > 10*time.Second {
			r.Violate("padding:delay-without-padchar", fmt.Sprintf("TPuts with no pad character slept %v", el), nil)
		}
		r.Count("timing_cases", 1)
	}

	// ---- (2) TGoto --------------------------------------------------------
	entries := AllEntries()
	r.Set("entries", len(entries))
	core.Parallel(len(entries), func(ei int) {
		ti := entries[ei]
		fam := cupFamily(ti.Name)
		n := int64(0)
		for row := 0; row <= 300; row++ {
			for col := 0; col <= 300; col++ {
				if (fam == "vt52" || fam == "wyse") && (row+32 > 255 || col+32 > 255) {
					continue
				}
				s := ti.TGoto(col, row)
				b, _, _ := tiref.StripPadding(s)
				c, rw, ok := decodeCup(fam, b)
				if !ok || c != col || rw != row {
					r.Violate("tgoto:"+fam, fmt.Sprintf("%s: TGoto(col=%d,row=%d) = %q, which addresses (col=%d,row=%d ok=%v) in the %s convention", ti.Name, col, row, s, c, rw, ok, fam), map[string]any{"entry": ti.Name, "col": col, "row": row})
					return
				}
				n++
			}
		}
		r.CaseN(n, n)
		if ei < 2 {
			r.Sample(8, map[string]any{"kind": "tgoto", "entry": ti.Name, "family": fam, "example": fmt.Sprintf("(7,3) -> %q", ti.TGoto(7, 3))})
		}
	})

	// ---- (3) TColor -------------------------------------------------------
	core.Parallel(len(entries), func(ei int) {
		ti := entries[ei]
		if nonECMA[ti.Name] {
			// monochrome, non-ANSI: must produce nothing
			for fg := -1; fg <= 300; fg += 7 {
				if s := ti.TColor(fg, fg); s != "" && ti.Colors == 0 {
					r.Violate("tcolor:mono", fmt.Sprintf("%s (0 colours): TColor(%d,%d)=%q", ti.Name, fg, fg, s), nil)
				}
			}
			return
		}
		n := int64(0)
		for fg := -1; fg <= 300; fg++ {
			for bg := -1; bg <= 300; bg++ {
				s := ti.TColor(fg, bg)
				wantFg, wantBg := fg, bg
				if ti.Colors == 8 {
					if wantFg >= 8 && wantFg < 16 {
						wantFg -= 8
					}
					if wantBg >= 8 && wantBg < 16 {
						wantBg -= 8
					}
				}
				if wantFg >= ti.Colors || wantFg < 0 {
					wantFg = -1
				}
				if wantBg >= ti.Colors || wantBg < 0 {
					wantBg = -1
				}
				if (wantFg >= 256 || wantBg >= 256) && ti.Colors > 256 {
					// a direct-colour entry: what an index of 256 or more selects is the entry's own
					// business, but it is in range, so the component may not be dropped
					tm := vt.New(2, 1)
					b, _, _ := tiref.StripPadding(s)
					tm.Feed(b)
					if (wantFg >= 0 && tm.Pen.Fg.K == vt.Default) || (wantBg >= 0 && tm.Pen.Bg.K == vt.Default) {
						r.Violate("tcolor:in-range-component-dropped", fmt.Sprintf("%s (%d colours): TColor(%d,%d)=%q leaves a plane at its default although the index is within the entry's colour count", ti.Name, ti.Colors, fg, bg, s), nil)
						return
					}
					n++
					continue
				}
				if wantFg < 0 && wantBg < 0 {
					if s != "" {
						r.Violate("tcolor:elide", fmt.Sprintf("%s (%d colours): TColor(%d,%d)=%q, expected nothing", ti.Name, ti.Colors, fg, bg, s), nil)
						return
					}
					n++
					continue
				}
				b, _, _ := tiref.StripPadding(s)
				tm := vt.New(2, 1)
				tm.Feed(b)
				gotFg, gotBg := -1, -1
				if tm.Pen.Fg.K == vt.Indexed {
					gotFg = tm.Pen.Fg.V
				}
				if tm.Pen.Bg.K == vt.Indexed {
					gotBg = tm.Pen.Bg.V
				}
				bad := len(tm.Errors) > 0 || len(tm.Unknown) > 0 || tm.TextRunes > 0 || !tm.InGround() ||
					tm.Pen.Fg.K == vt.RGB || tm.Pen.Bg.K == vt.RGB || gotFg != wantFg || gotBg != wantBg
				if bad {
					r.Violate("tcolor:select", fmt.Sprintf("%s (%d colours): TColor(%d,%d)=%q selects fg=%v bg=%v (errors %v unknown %v), expected fg=%d bg=%d", ti.Name, ti.Colors, fg, bg, s, tm.Pen.Fg, tm.Pen.Bg, tm.Errors, tm.Unknown, wantFg, wantBg), map[string]any{"entry": ti.Name, "fg": fg, "bg": bg})
					return
				}
				n++
			}
		}
		r.CaseN(n, n)
	})
	// ---- (4) the same strings from entries as applications obtain them -----
	// "for every built-in terminal": LookupTerminfo(name) after the derived names
	// (-256color, -truecolor, which tcell fabricates on demand) have been looked up must
	// still give the cursor and colour strings of the registered entry.
	snapshot()
	var names []string
	for k := range snapMap {
		names = append(names, k)
	}
	sort.Strings(names)
	defer RestoreRegistry()
	for _, nm := range names {
		base := nm
		for _, suf := range []string{"-256color", "-88color", "-16color", "-color", "-truecolor"} {
			base = strings.TrimSuffix(base, suf)
		}
		for _, suf := range []string{"-truecolor", "-256color"} {
			_, _ = terminfo.LookupTerminfo(base + suf)
			_, _ = terminfo.LookupTerminfo(nm + suf)
		}
	}
	nl := int64(0)
	// the palette strings of an entry do not depend on the direct-colour switches either
	envs := [][2]string{{"", ""}, {"COLORTERM", "truecolor"}, {"TCELL_TRUECOLOR", "1"}, {"COLORTERM", "24bit"}}
	defer func() { os.Unsetenv("COLORTERM"); os.Unsetenv("TCELL_TRUECOLOR") }()
	for ei, env := range envs {
		os.Unsetenv("COLORTERM")
		os.Unsetenv("TCELL_TRUECOLOR")
		if env[0] != "" {
			os.Setenv(env[0], env[1])
		}
		for ni, nm := range names {
			if ei > 0 && r.Quick() && ni%3 != ei%3 {
				continue
			}
			got, err := terminfo.LookupTerminfo(nm)
			want := Pristine(nm)
			if err != nil {
				r.Violate("lookup-sequence:lost", fmt.Sprintf("LookupTerminfo(%q) fails after the derived names were looked up: %v", nm, err), nil)
				continue
			}
			bad := false
			for fg := -1; fg <= 300 && !bad; fg += 3 {
				for bg := -1; bg <= 300 && !bad; bg += 5 {
					nl++
					if a, b := got.TColor(fg, bg), want.TColor(fg, bg); a != b {
						r.Violate("lookup-sequence:tcolor", fmt.Sprintf("after looking up the derived -256color/-truecolor names, LookupTerminfo(%q) (environment %s=%q).TColor(%d,%d) = %q; the registered entry gives %q (colours %d vs %d)", nm, env[0], env[1], fg, bg, a, b, got.Colors, want.Colors), map[string]any{"entry": nm})
						bad = true
					}
				}
			}
			for _, p := range [][2]int{{0, 0}, {7, 3}, {95, 96}, {250, 131}} {
				if a, b := got.TGoto(p[0], p[1]), want.TGoto(p[0], p[1]); a != b && !bad {
					r.Violate("lookup-sequence:tgoto", fmt.Sprintf("after looking up the derived names, LookupTerminfo(%q).TGoto(%d,%d) = %q; the registered entry gives %q", nm, p[0], p[1], a, b), nil)
					bad = true
				}
			}
		}
	}
	r.CaseN(nl, nl)
	r.Set("names_looked_up_after_derived_names", len(names))
	r.Sample(8, map[string]any{"kind": "tcolor", "entry": "xterm-256color", "example": fmt.Sprintf("(9,200) -> %q", Pristine("xterm-256color").TColor(9, 200))})
}
