package props

import (
	"fmt"
	"os"
	"sync/atomic"
	"syscall"
	"time"

	"github.com/gdamore/tcell/v2"
	"golang.org/x/sys/unix"

	"verif/census"
)

// openPty opens a pseudo terminal of the given size and returns its master side and the
// path of the slave.
func openPty(cols, rows int) (*os.File, string, error) {
	mfd, err := unix.Open("/dev/ptmx", unix.O_RDWR|unix.O_NOCTTY, 0)
	if err != nil {
		return nil, "", err
	}
	if err := unix.IoctlSetPointerInt(mfd, unix.TIOCSPTLCK, 0); err != nil {
		unix.Close(mfd)
		return nil, "", err
	}
	n, err := unix.IoctlGetInt(mfd, unix.TIOCGPTN)
	if err != nil {
		unix.Close(mfd)
		return nil, "", err
	}
	_ = unix.IoctlSetWinsize(mfd, unix.TIOCSWINSZ, &unix.Winsize{Row: uint16(rows), Col: uint16(cols)})
	return os.NewFile(uintptr(mfd), "ptmx"), fmt.Sprintf("/dev/pts/%d", n), nil
}

// c06pty: the real devTty on a pseudo terminal.  Suspend/Resume cycles and Fini
// while window-size signals rain on the process and the size keeps changing.
func c06pty(sn c06scn) (res c06res) {
	res.Idx = sn.Idx
	incon := func(what string) c06res {
		res.Verdict, res.What, res.Abort = "inconclusive", what, true
		return res
	}
	fail := func(sig, what string) c06res {
		res.Verdict, res.Sig, res.What, res.Abort = "violated", sig, what, true
		return res
	}
	mfd, err := unix.Open("/dev/ptmx", unix.O_RDWR|unix.O_NOCTTY, 0)
	if err != nil {
		res.Verdict, res.What = "skipped", "no pty: "+err.Error()
		return res
	}
	if err := unix.IoctlSetPointerInt(mfd, unix.TIOCSPTLCK, 0); err != nil {
		res.Verdict, res.What = "skipped", "unlockpt: "+err.Error()
		return res
	}
	n, err := unix.IoctlGetInt(mfd, unix.TIOCGPTN)
	if err != nil {
		res.Verdict, res.What = "skipped", "ptsname: "+err.Error()
		return res
	}
	master := os.NewFile(uintptr(mfd), "ptmx")
	defer master.Close()
	_ = unix.IoctlSetWinsize(mfd, unix.TIOCSWINSZ, &unix.Winsize{Row: 10, Col: 40})
	go func() { // the terminal swallows the output
		buf := make([]byte, 4096)
		for {
			if _, err := master.Read(buf); err != nil {
				return
			}
		}
	}()
	tty, err := tcell.NewDevTtyFromDev(fmt.Sprintf("/dev/pts/%d", n))
	if err != nil {
		return incon("NewDevTtyFromDev: " + err.Error())
	}
	ti := Pristine("xterm-256color")
	ti.PadChar = ""
	s, err := tcell.NewTerminfoScreenFromTtyTerminfo(tty, ti)
	if err != nil {
		return incon(err.Error())
	}
	if err := s.Init(); err != nil {
		return incon("Init: " + err.Error())
	}
	sc := newSched(sn.Sched)
	tcell.VerifSetSched(sc.point)
	defer tcell.VerifSetSched(nil)
	var stop int32
	go func() { // signal storm + size changes
		k := 0
		for atomic.LoadInt32(&stop) == 0 {
			k++
			_ = unix.IoctlSetWinsize(mfd, unix.TIOCSWINSZ, &unix.Winsize{Row: uint16(10 + k%3), Col: uint16(40 + k%5)})
			_ = syscall.Kill(os.Getpid(), syscall.SIGWINCH)
			if k%8 == 0 {
				time.Sleep(50 * time.Microsecond)
			}
		}
	}()
	defer atomic.StoreInt32(&stop, 1)
	var lastW, lastH int32
	go func() { // drain events, remember the last size reported
		for {
			ev := s.PollEvent()
			if ev == nil {
				return
			}
			if rz, ok := ev.(*tcell.EventResize); ok {
				w, h := rz.Size()
				atomic.StoreInt32(&lastW, int32(w))
				atomic.StoreInt32(&lastH, int32(h))
			}
		}
	}()
	call := func(name string, f func()) (string, string) {
		done := make(chan struct{})
		go func() { defer close(done); f() }()
		c, w := waitOrClassify(done, sc)
		if c != "" && c != "inconclusive" {
			return c + "@" + name, w
		}
		return c, w
	}
	cycles := 40
	for i := 0; i < cycles; i++ {
		if c, w := call("Suspend", func() { _ = s.Suspend() }); c != "" {
			if c == "inconclusive" {
				return incon(w)
			}
			return fail(c, fmt.Sprintf("real devTty on a pty, SIGWINCH storm: Suspend #%d did not return: %s", i, w))
		}
		var rerr error
		if c, w := call("Resume", func() { rerr = s.Resume() }); c != "" {
			if c == "inconclusive" {
				return incon(w)
			}
			return fail(c, fmt.Sprintf("real devTty on a pty: Resume #%d did not return: %s", i, w))
		}
		if rerr != nil {
			return fail("resume-error@pty", "Resume: "+rerr.Error())
		}
		_, _ = master.Write([]byte("k"))
		s.Show()
	}
	// after the last Resume the window changes once more: the resize must still be reported
	atomic.StoreInt32(&stop, 1)
	time.Sleep(5 * time.Millisecond)
	_ = unix.IoctlSetWinsize(mfd, unix.TIOCSWINSZ, &unix.Winsize{Row: 19, Col: 77})
	seen := false
	for i := 0; i < 750 && !seen; i++ {
		_ = syscall.Kill(os.Getpid(), syscall.SIGWINCH)
		time.Sleep(20 * time.Millisecond)
		seen = atomic.LoadInt32(&lastW) == 77 && atomic.LoadInt32(&lastH) == 19
	}
	if !seen {
		lib := census.Library(census.Dump())
		parked := len(lib) > 0
		for _, g := range lib {
			if !census.Blocking(g.State) {
				parked = false
			}
		}
		if parked {
			return fail("after-resume:no-resize@pty", fmt.Sprintf("real devTty on a pty: after %d Suspend/Resume cycles the window was set to 77x19 and SIGWINCH delivered 750 times over 15 s: no EventResize with that size arrived (last size reported %dx%d) and the library's loops are parked", cycles, atomic.LoadInt32(&lastW), atomic.LoadInt32(&lastH)))
		}
		return incon("resize after Resume on the pty: watchdog")
	}
	if c, w := call("Fini", func() { s.Fini() }); c != "" {
		if c == "inconclusive" {
			return incon(w)
		}
		return fail(c, "real devTty on a pty, SIGWINCH storm: Fini did not return: "+w)
	}
	res.Verdict = "held"
	return res
}
