package props

import (
	"fmt"
	"runtime"
	"strings"
	"time"

	"github.com/gdamore/tcell/v2"

	"verif/core"
)

func init() { register("C12", C12) }

// reference decoding of an xterm mouse button code (ctlseqs, "Mouse Tracking")
type mref struct {
	btn      tcell.ButtonMask
	mod      tcell.ModMask
	motion   bool
	wheel    bool
	release  bool // low bits == 3
	identity bool // whether the statement fixes the button identity
}

func refMouse(code int) mref {
	m := mref{identity: code < 128}
	if code&4 != 0 {
		m.mod |= tcell.ModShift
	}
	if code&8 != 0 {
		m.mod |= tcell.ModAlt
	}
	if code&16 != 0 {
		m.mod |= tcell.ModCtrl
	}
	m.motion = code&32 != 0
	m.wheel = code&64 != 0
	low := code & 3
	switch {
	case m.wheel:
		switch low {
		case 0:
			m.btn = tcell.WheelUp
		case 1:
			m.btn = tcell.WheelDown
		default:
			m.identity = false // wheel left/right: not named in the statement
		}
	case low == 0:
		m.btn = tcell.Button1
	case low == 1:
		m.btn = tcell.Button3 // middle
	case low == 2:
		m.btn = tcell.Button2 // right
	default:
		m.release = true
	}
	return m
}

func clipi(v, n int) int {
	if v < 0 {
		return 0
	}
	if v > n-1 {
		return n - 1
	}
	return v
}

func C12(r *core.Run) {
	r.Rule = "independent xterm mouse decoder vs the real parser (verif hook). Exhaustive: SGR button codes 0..255 x finals M/m x x,y in {-5,0,1,2,w-1,w,w+1,9999} on fresh state, 7-bit CSI (8-bit CSI in the 8-bit-locale sub-run); legacy X11 reports all Cb 32..255 x coordinate bytes (quick: a grid, thorough: all 224^2); seeded press/motion/wheel/release histories against a held-button model. distinct by construction for the sweeps, distinct history bytes otherwise. Button identity is compared for codes 0..127 except wheel-left/right; three-valued after reports the protocol never generates."
	r.Assumptions = []string{"xterm ctlseqs: low two bits button (3 = release), +4 Shift, +8 Alt(Meta), +16 Ctrl, +32 motion, +64 wheel; legacy Cb-32, Cx-33, Cy-33", "tcell numbering: left=Button1, right=Button2, middle=Button3"}
	var ents []string
	for _, ti := range AllEntries() {
		if ti.Mouse != "" {
			ents = append(ents, ti.Name)
		}
	}
	r.Set("mouse_entries", len(ents))
	const W, H = 80, 24
	coords := []int{-5, 0, 1, 2, W - 1, W, W + 1, 9999, -100000, 1234567}
	core.Parallel(len(ents), func(ei int) {
		ti := Pristine(ents[ei])
		full := ei%6 == 0 || !r.Quick()
		d, err := newDecoder(ti, "UTF-8", W, H)
		if err != nil {
			r.Inconclusive(err.Error())
			return
		}
		fail := func(sig, what string, rep any) {
			r.Violate(sig, ti.Name+": "+what, map[string]any{"entry": ti.Name, "case": rep})
		}
		one := func(s []byte) (NEv, bool) {
			evs, left, pan := d.whole(s)
			if pan != nil || left != 0 || len(evs) != 1 || evs[0].T != "mouse" {
				return NEv{}, false
			}
			return evs[0], true
		}
		// ---- SGR sweep ----
		n := int64(0)
		for code := 0; code < 256; code++ {
			ref := refMouse(code)
			d.modeSet(code + ei) // a report is decoded the same way whatever mouse mode was asked for
			for _, fin := range []string{"M", "m"} {
				for xi, cx := range coords {
					for yi, cy := range coords {
						if !full && (xi+yi)%3 != 0 {
							continue
						}
						s := fmt.Sprintf("\x1b[<%d;%d;%d%s", code, cx, cy, fin)
						ev, ok := one([]byte(s))
						n++
						if !ok {
							evs, left, pan := d.whole([]byte(s))
							fail("sgr:count", fmt.Sprintf("report %q decodes to %s (leftover %d, panic %v), expected exactly one mouse event", s, evsStr(evs), left, pan), s)
							return
						}
						wx, wy := clipi(cx-1, W), clipi(cy-1, H)
						if ev.X != wx || ev.Y != wy {
							fail("sgr:position", fmt.Sprintf("report %q decodes to position (%d,%d), expected (%d,%d) on an %dx%d screen", s, ev.X, ev.Y, wx, wy, W, H), s)
							return
						}
						if ev.Mod != ref.mod {
							fail("sgr:modifiers", fmt.Sprintf("report %q decodes to modifiers %d, expected %d", s, ev.Mod, ref.mod), s)
							return
						}
						var want tcell.ButtonMask
						defined := ref.identity
						switch {
						case fin == "m":
							want = tcell.ButtonNone
							defined = true
						case ref.motion && !ref.wheel:
							want = tcell.ButtonNone // nothing held on fresh state
							defined = true
						case ref.motion && ref.wheel:
							defined = false
						case ref.release:
							want = tcell.ButtonNone
						default:
							want = ref.btn
						}
						if defined && ev.Btn != want {
							fail(fmt.Sprintf("sgr:buttons:%s", codeClass(code, fin)), fmt.Sprintf("report %q decodes to buttons %#x, expected %#x", s, int(ev.Btn), int(want)), s)
							return
						}
					}
				}
			}
		}
		r.CaseN(n, n)
		// ---- stateful sweep: press, then every code/final, then a motion report ----
		n = 0
		for code := 0; code < 256; code++ {
			ref := refMouse(code)
			for _, fin := range []string{"M", "m"} {
				s := fmt.Sprintf("\x1b[<0;3;3M\x1b[<%d;4;4%s\x1b[<32;5;5M", code, fin)
				evs, left, pan := d.whole([]byte(s))
				n++
				if pan != nil || left != 0 || len(evs) != 3 || evs[0].T != "mouse" || evs[1].T != "mouse" || evs[2].T != "mouse" {
					fail("sgr:count", fmt.Sprintf("reports %q decode to %s (leftover %d, panic %v), expected three mouse events", s, evsStr(evs), left, pan), s)
					return
				}
				if evs[0].Btn != tcell.Button1 {
					fail("sgr:buttons:press", fmt.Sprintf("reports %q: the press decodes to buttons %#x", s, int(evs[0].Btn)), s)
					return
				}
				var want tcell.ButtonMask
				defined := ref.identity && !(ref.motion && ref.wheel)
				heldAfter := 1 // 1 held, 0 released, -1 unknown
				switch {
				case fin == "m":
					want, defined, heldAfter = tcell.ButtonNone, true, 0
				case ref.release:
					want = tcell.ButtonNone
					if !ref.motion {
						heldAfter = -1 // a press report with code 3: never generated in SGR mode
					}
				default:
					want = ref.btn
				}
				if defined && evs[1].Btn != want {
					fail(fmt.Sprintf("sgr:buttons-after-press:%s", codeClass(code, fin)), fmt.Sprintf("reports %q: the second report decodes to buttons %#x, expected %#x", s, int(evs[1].Btn), int(want)), s)
					return
				}
				if heldAfter == 0 && evs[2].Btn != tcell.ButtonNone {
					fail("sgr:motion-after-release", fmt.Sprintf("reports %q: motion after the release still carries buttons %#x", s, int(evs[2].Btn)), s)
					return
				}
				if heldAfter == 1 && evs[2].Btn != tcell.Button1 {
					fail("sgr:motion-while-held", fmt.Sprintf("reports %q: motion while the button is held decodes to buttons %#x, expected Button1", s, int(evs[2].Btn)), s)
					return
				}
			}
		}
		r.CaseN(n, n)
		// ---- from idle: a wheel report (with any modifiers), then a motion report ----
		// Nothing is held after a wheel impulse, exactly as on fresh state: motion carries no
		// buttons, also when it is coded 32..34.
		n = 0
		for wcode := 64; wcode < 96; wcode++ {
			if wcode&32 != 0 || wcode&3 > 1 {
				continue // up/down only, all modifier sets
			}
			for _, mcode := range []int{32, 33, 34, 35, 36, 48} {
				s := fmt.Sprintf("\x1b[<%d;3;3M\x1b[<%d;4;4M", wcode, mcode)
				evs, left, pan := d.whole([]byte(s))
				n++
				if pan != nil || left != 0 || len(evs) != 2 || evs[0].T != "mouse" || evs[1].T != "mouse" {
					fail("sgr:count", fmt.Sprintf("reports %q decode to %s (leftover %d, panic %v), expected two mouse events", s, evsStr(evs), left, pan), s)
					return
				}
				if evs[1].Btn != tcell.ButtonNone {
					fail("sgr:motion-after-wheel", fmt.Sprintf("reports %q: motion after a wheel impulse from idle carries buttons %#x, expected none (no press was reported)", s, int(evs[1].Btn)), s)
					return
				}
			}
		}
		r.CaseN(n, n)
		// ---- a lone ESC (the Esc key) directly in front of a report: the report keeps its own modifiers ----
		n = 0
		for _, code := range []int{0, 1, 2, 4, 16, 35, 64, 65} {
			ref := refMouse(code)
			for _, rep := range []string{fmt.Sprintf("\x1b[<%d;7;7M", code), string([]byte{0x1b, '[', 'M', byte(32 + code), 40, 40})} {
				s := "\x1b" + rep
				evs, left, pan := d.whole([]byte(s))
				n++
				var ms []NEv
				for _, e := range evs {
					if e.T == "mouse" {
						ms = append(ms, e)
					}
				}
				if pan != nil || left != 0 || len(ms) != 1 {
					fail("esc-before-report:count", fmt.Sprintf("ESC followed by the report %q decodes to %s (leftover %d, panic %v), expected exactly one mouse event among them", rep, evsStr(evs), left, pan), s)
					return
				}
				if ms[0].Mod != ref.mod {
					fail("esc-before-report:modifiers", fmt.Sprintf("ESC followed by the report %q: the mouse event has modifiers %d, the report says %d", rep, ms[0].Mod, ref.mod), s)
					return
				}
			}
		}
		r.CaseN(n, n)
		// ---- two reports (or a report and text) in one read, every introducer style ----
		n = 0
		for _, a := range []string{"\x1b[<0;3;3M", "\x1b[<0;3;3m", string([]byte{0x1b, '[', 'M', 32, 40, 40}), string([]byte{0x1b, '[', 'M', 35, 41, 40})} {
			for _, b := range []string{"\x1b[<2;9;9M", string([]byte{0x1b, '[', 'M', 34, 50, 41}), "x", "\x1b[A"} {
				s := a + b
				evs, left, pan := d.whole([]byte(s))
				eb, _, _ := d.whole([]byte(b))
				ea, _, _ := d.whole([]byte(a))
				n++
				if pan != nil || left != 0 || len(ea) != 1 || len(evs) != 1+len(eb) || evs[0].T != "mouse" || !evsEq(evs[1:], eb) {
					fail("back-to-back", fmt.Sprintf("%q and %q in one read decode to %s; alone they decode to %s and %s", a, b, evsStr(evs), evsStr(ea), evsStr(eb)), s)
					return
				}
			}
		}
		r.CaseN(n, n)
		// ---- legacy X11 sweep ----
		n = 0
		step := 1
		if !full || r.Quick() {
			step = 13
		}
		// coordinate bytes: 32.. as xterm encodes cells, plus bytes below 32 (cell <= 0; xterm
		// sends NUL for a coordinate it cannot encode), which clip to the first column/row
		var coordBytes []int
		for _, b := range []int{0, 1, 0x1b, 0x1f} {
			coordBytes = append(coordBytes, b)
		}
		if !r.Quick() && full {
			coordBytes = coordBytes[:0]
			for b := 0; b < 32; b++ {
				coordBytes = append(coordBytes, b)
			}
		}
		for b := 32; b < 256; b += step {
			coordBytes = append(coordBytes, b)
		}
		for cb := 32; cb < 256; cb++ {
			ref := refMouse(cb - 32)
			for _, cxb := range coordBytes {
				for _, cyb := range coordBytes {
					s := []byte{0x1b, '[', 'M', byte(cb), byte(cxb), byte(cyb)}
					ev, ok := one(s)
					n++
					if !ok {
						evs, left, pan := d.whole(s)
						fail("x11:count", fmt.Sprintf("report %q decodes to %s (leftover %d, panic %v), expected exactly one mouse event", s, evsStr(evs), left, pan), fmt.Sprintf("%q", s))
						return
					}
					wx, wy := clipi(cxb-33, W), clipi(cyb-33, H)
					if ev.X != wx || ev.Y != wy {
						fail("x11:position", fmt.Sprintf("report %q decodes to position (%d,%d), expected (%d,%d)", s, ev.X, ev.Y, wx, wy), fmt.Sprintf("%q", s))
						return
					}
					if ev.Mod != ref.mod {
						fail("x11:modifiers", fmt.Sprintf("report %q decodes to modifiers %d, expected %d", s, ev.Mod, ref.mod), fmt.Sprintf("%q", s))
						return
					}
					if ref.identity && !(ref.motion && ref.wheel) {
						want := ref.btn
						if ref.release {
							want = tcell.ButtonNone
						}
						// legacy motion reports carry the held button themselves
						if ev.Btn != want {
							fail(fmt.Sprintf("x11:buttons:%s", codeClass(cb-32, "M")), fmt.Sprintf("report %q (code %d) decodes to buttons %#x, expected %#x", s, cb-32, int(ev.Btn), int(want)), fmt.Sprintf("%q", s))
							return
						}
					}
				}
			}
		}
		r.CaseN(n, n)
		// multi-digit / zero-padded / signed parameters
		for _, s := range []string{"\x1b[<0;010;0005M", "\x1b[<00;1;1M", "\x1b[<0;-3;-7M", "\x1b[<2;80;24m", "\x1b[<64;40;12M"} {
			if _, ok := one([]byte(s)); !ok {
				evs, _, _ := d.whole([]byte(s))
				fail("sgr:count", fmt.Sprintf("report %q decodes to %s", s, evsStr(evs)), s)
			}
		}

		// ---- histories ----
		nh := r.Pick(300, 30000)
		if !full {
			nh /= 10
		}
		for hi := 0; hi < nh; hi++ {
			rg := r.Rand("hist", ti.Name, hi)
			var sb strings.Builder
			type exp struct {
				x, y    int
				btn     tcell.ButtonMask
				mod     tcell.ModMask
				defined bool
				press   bool
				none    bool
			}
			var exps []exp
			var reps []string
			held := tcell.ButtonNone
			heldKnown := true
			steps := 3 + rg.IntN(12)
			for k := 0; k < steps; k++ {
				x, y := 1+rg.IntN(W), 1+rg.IntN(H)
				mod := []int{0, 0, 0, 4, 8, 16, 28}[rg.IntN(7)]
				var code int
				fin := "M"
				e := exp{x: x - 1, y: y - 1, defined: true}
				switch a := rg.IntN(10); {
				case a < 3: // press
					b := rg.IntN(3)
					code = b + mod
					held = refMouse(b).btn
					heldKnown = true
					e.btn, e.press = held, true
				case a < 6: // motion
					if held != tcell.ButtonNone && heldKnown {
						b := map[tcell.ButtonMask]int{tcell.Button1: 0, tcell.Button3: 1, tcell.Button2: 2}[held]
						code = 32 + b + mod
						e.btn = held
					} else {
						code = 35 + mod
						e.btn, e.none = tcell.ButtonNone, true
					}
				case a < 8: // wheel
					wv := rg.IntN(2)
					code = 64 + wv + mod
					e.btn = []tcell.ButtonMask{tcell.WheelUp, tcell.WheelDown}[wv]
				default: // release
					b := 0
					if held != tcell.ButtonNone {
						b = map[tcell.ButtonMask]int{tcell.Button1: 0, tcell.Button3: 1, tcell.Button2: 2}[held]
					}
					code, fin = b+mod, "m"
					if rg.IntN(3) == 0 {
						code += 32 // a release reported while moving
					}
					held = tcell.ButtonNone
					e.btn, e.none = tcell.ButtonNone, true
				}
				e.mod = refMouse(code).mod
				rep := fmt.Sprintf("\x1b[<%d;%d;%d%s", code, x, y, fin)
				reps = append(reps, rep)
				sb.WriteString(rep)
				exps = append(exps, e)
			}
			evs, left, pan := d.whole([]byte(sb.String()))
			r.Case("hist|" + sb.String())
			if pan != nil || left != 0 || len(evs) != len(exps) {
				fail("history:count", fmt.Sprintf("history %q decodes to %d events (leftover %d, panic %v), expected %d", reps, len(evs), left, pan, len(exps)), reps)
				continue
			}
			for i, e := range exps {
				g := evs[i]
				if g.T != "mouse" || g.X != e.x || g.Y != e.y || g.Mod != e.mod || g.Btn != e.btn {
					kind := "press"
					switch {
					case strings.HasSuffix(reps[i], "m"):
						kind = "release"
					case e.none:
						kind = "motion-none-held"
					case !e.press && e.btn != tcell.WheelUp && e.btn != tcell.WheelDown:
						kind = "motion-held"
					case !e.press:
						kind = "wheel"
					}
					fail("history:"+kind, fmt.Sprintf("history %q: event %d (%q) is %s, expected position (%d,%d) buttons %#x modifiers %d", reps, i, reps[i], g, e.x, e.y, int(e.btn), e.mod), reps)
					break
				}
			}
			if ei == 0 && hi < 2 {
				r.Sample(6, map[string]any{"kind": "history", "reports": reps})
			}
		}
	})
	c12eightbit(r)
	r.Sample(6, map[string]any{"kind": "sgr sweep", "example": "ESC[<20;9999;0M -> mouse(79,0,Button1,Ctrl+Shift)"})
}

func codeClass(code int, fin string) string {
	switch {
	case fin == "m":
		return "release"
	case code&64 != 0:
		return "wheel"
	case code&32 != 0:
		return "motion"
	case code&3 == 3:
		return "release-code"
	}
	return "press"
}

// c12eightbit: the 8-bit CSI introducer (0x9b) in an 8-bit locale.
func c12eightbit(r *core.Run) {
	ti := Pristine("xterm")
	for _, cs := range []string{"ISO8859-1", "UTF-8"} {
		d, err := newDecoder(ti, cs, 80, 24)
		if err != nil {
			r.Inconclusive(err.Error())
			return
		}
		n := int64(0)
		for code := 0; code < 128; code++ {
			ref := refMouse(code)
			if ref.motion || !ref.identity {
				continue
			}
			for _, fin := range []string{"M", "m"} {
				s := []byte(fmt.Sprintf("\x9b<%d;%d;%d%s", code, 10, 5, fin))
				evs, left, pan := d.whole(s)
				n++
				want := ref.btn
				if fin == "m" || ref.release {
					want = tcell.ButtonNone
				}
				if pan != nil || left != 0 || len(evs) != 1 || evs[0].T != "mouse" || evs[0].X != 9 || evs[0].Y != 4 || evs[0].Btn != want || evs[0].Mod != ref.mod {
					r.Violate("sgr:8bit-introducer:"+cs, fmt.Sprintf("xterm/%s: report %q (8-bit CSI) decodes to %s (leftover %d, panic %v), expected one mouse event at (9,4) buttons %#x", cs, s, evsStr(evs), left, pan, int(want)), fmt.Sprintf("%q", s))
					break
				}
			}
		}
		r.CaseN(n, n)
		// legacy reports behind the 8-bit CSI are one byte shorter: what follows in the same read
		// is decoded on its own
		for _, b := range []string{string([]byte{0x9b, 'M', 35, 44, 40}), string([]byte{0x1b, '[', 'M', 34, 50, 41}), "x", "\x9b<0;2;2M"} {
			a := string([]byte{0x9b, 'M', 32, 40, 40})
			evs, left, pan := d.whole([]byte(a + b))
			ea, _, _ := d.whole([]byte(a))
			eb, _, _ := d.whole([]byte(b))
			if len(ea) == 1 && ea[0].T == "mouse" {
				if pan != nil || left != 0 || len(evs) != 1+len(eb) || evs[0].T != "mouse" || !evsEq(evs[1:], eb) {
					r.Violate("back-to-back:8bit-legacy:"+cs, fmt.Sprintf("xterm/%s: %q and %q in one read decode to %s; alone they decode to %s and %s", cs, a, b, evsStr(evs), evsStr(ea), evsStr(eb)), nil)
				}
				r.CaseN(1, 1)
			}
		}
	}
	c12live(r)
	c12pipeline(r)
}

// c12pipeline: a press, a burst of drag reports and the release arrive in separate reads while
// the application is not polling (event queue full, later reads waiting in the chunk queue);
// polling starts when everything has been read; expectation = the parser's one-read result.
func c12pipeline(r *core.Run) {
	for _, name := range []string{"xterm-256color", "linux", "tmux-256color", "rxvt-unicode"} {
		ti := Pristine(name)
		if ti == nil || ti.Mouse == "" {
			continue
		}
		for round := 0; round < r.Pick(3, 40); round++ {
			rg := r.Rand("c12pipe", name, round)
			ls, err := startScreen(ti, 80, 24, nil)
			if err != nil {
				r.Inconclusive(err.Error())
				return
			}
			ls.s.EnableMouse()
			var reads [][]byte
			x, y := 5+rg.IntN(20), 3+rg.IntN(10)
			reads = append(reads, []byte(fmt.Sprintf("\x1b[<0;%d;%dM", x, y)))
			for i := 0; i < 7+rg.IntN(2); i++ { // (at most 11 reads in all: the chunk queue, the main loop and the reader hold 12 even when nothing is decoded)
				x, y = x+1+rg.IntN(2), y+rg.IntN(2)
				reads = append(reads, []byte(fmt.Sprintf("\x1b[<32;%d;%dM", x, y)))
			}
			reads = append(reads, []byte(fmt.Sprintf("\x1b[<0;%d;%dm", x, y)))
			var all []byte
			for _, b := range reads {
				ls.tty.Feed(b)
				all = append(all, b...)
			}
			ls.tty.Feed([]byte{0x1d})
			for i := 0; i < 200000 && ls.tty.Pending() > 0; i++ {
				runtime.Gosched()
			}
			var want []NEv
			if d, err := newDecoder(ti, "UTF-8", 80, 24); err == nil {
				want, _, _ = d.whole(all)
			}
			got, ok := ls.pollUntilRune(0x1d)
			ls.judgeSentinel(r, ok, "mouse pipeline "+name)
			ls.fini()
			if !ok {
				continue
			}
			r.Case(fmt.Sprintf("mousepipe|%s|%d", name, round))
			r.Count("pipeline_histories", 1)
			if !evsEq(got, want) {
				r.Violate("pipeline:drag", fmt.Sprintf("%s: press, %d drag reports and release arriving in %d reads while the application was not polling were delivered as %s, expected %s", name, len(reads)-2, len(reads), short(evsStr(got), 500), short(evsStr(want), 500)), nil)
				break
			}
		}
	}
}

// c12live: the reports of a drag on a live screen with the application calling the
// screen between them (mouse modes reprogrammed from the press handler, a
// Suspend/Resume cycle with the button down). The motion report itself says which
// button is held (code 32 + button): whatever the application did in between, it
// must decode to that button.
func c12live(r *core.Run) {
	ti := Pristine("xterm-256color")
	calls := []struct {
		name string
		f    func(s tcell.Screen)
	}{
		{"nothing", func(s tcell.Screen) {}},
		{"EnableMouse()", func(s tcell.Screen) { s.EnableMouse() }},
		{"EnableMouse(buttons|drag)", func(s tcell.Screen) { s.EnableMouse(tcell.MouseButtonEvents | tcell.MouseDragEvents) }},
		{"EnableMouse(motion)", func(s tcell.Screen) { s.EnableMouse(tcell.MouseMotionEvents) }},
		{"DisableMouse+EnableMouse", func(s tcell.Screen) { s.DisableMouse(); s.EnableMouse() }},
		{"Suspend+Resume", func(s tcell.Screen) { _ = s.Suspend(); _ = s.Resume() }},
		{"EnablePaste", func(s tcell.Screen) { s.EnablePaste() }},
		{"SetSize-same+Sync", func(s tcell.Screen) { s.Sync() }},
	}
	rounds := r.Pick(3, 40)
	for k := 0; k < rounds*len(calls); k++ {
		c := calls[k%len(calls)]
		btnCode := []int{0, 1, 2}[(k/len(calls))%3]
		wantBtn := []tcell.ButtonMask{tcell.Button1, tcell.Button3, tcell.Button2}[btnCode]
		ls, err := startScreen(ti, 80, 24, nil)
		if err != nil {
			r.Inconclusive(err.Error())
			return
		}
		ls.s.EnableMouse()
		next := func() (NEv, bool) {
			deadline := time.After(20 * time.Second)
			got := make(chan tcell.Event, 1)
			for {
				go func() { got <- ls.s.PollEvent() }()
				select {
				case ev := <-got:
					if ev == nil {
						return NEv{}, false
					}
					if _, ok := ev.(*tcell.EventMouse); ok {
						return normEv(ev), true
					}
				case <-deadline:
					return NEv{}, false
				}
			}
		}
		ok := true
		step := func(rep string, want tcell.ButtonMask, what string) {
			if !ok {
				return
			}
			ls.tty.Feed([]byte(rep))
			ev, got := next()
			if !got {
				ls.judgeSentinel(r, false, fmt.Sprintf("live drag, report %q after %s", rep, c.name))
				ok = false
				return
			}
			if ev.Btn != want {
				r.Violate("live:"+what, fmt.Sprintf("xterm-256color: press (code %d), then %s, then reports ...%q: %s decodes to buttons %#x, expected %#x", btnCode, c.name, rep, what, int(ev.Btn), int(want)), nil)
				ok = false
			}
		}
		step(fmt.Sprintf("\x1b[<%d;5;5M", btnCode), wantBtn, "press")
		if ok {
			ls.tty.BeginApp()
			c.f(ls.s)
			ls.tty.EndApp()
		}
		step(fmt.Sprintf("\x1b[<%d;6;5M", 32+btnCode), wantBtn, "motion-while-held-after-call")
		step(fmt.Sprintf("\x1b[<%d;7;6M", 32+btnCode), wantBtn, "motion-while-held-after-call")
		step(fmt.Sprintf("\x1b[<%d;7;6m", btnCode), tcell.ButtonNone, "release")
		ls.fini()
		r.Case(fmt.Sprintf("live|%s|%d|%d", c.name, btnCode, k))
		r.Count("live_drag_histories", 1)
	}
}
