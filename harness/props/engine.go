package props

import (
	"fmt"
	"reflect"
	"strings"
	"time"

	"github.com/gdamore/tcell/v2"
	"github.com/gdamore/tcell/v2/terminfo"

	"verif/colorref"
	"verif/faketty"
	"verif/shadow"
	"verif/tiref"
	"verif/vt"
)

// session describes one terminal configuration for the screen-level monitors.
type session struct {
	name      string
	ti        *terminfo.Terminfo // private copy, PadChar cleared
	mode      string             // "asis", "direct" (24-bit strings added as COLORTERM does), "nodirect" (TCELL_TRUECOLOR=disable)
	truecolor bool
	ncolors   int
	xtermlike bool
	styledUl  bool
	hasURL    bool
	aliasFg   vt.Col // what the entry's "op" string sets (alias of default)
	aliasBg   vt.Col
	dec       vt.Decoder // legacy charset decoder for the emulator (nil = UTF-8)
	charset   string
}

func newSession(base *terminfo.Terminfo, mode string) *session {
	ti := CopyTI(base)
	ti.PadChar = ""
	s := &session{name: base.Name, ti: ti, mode: mode, charset: "UTF-8"}
	if mode == "direct" && ti.SetFgBgRGB == "" && ti.SetFgRGB == "" && ti.SetBgRGB == "" && ti.Colors > 0 {
		ti.SetFgRGB, ti.SetBgRGB, ti.SetFgBgRGB = stdFgRGB, stdBgRGB, stdFgBgRGB
	}
	s.truecolor = (ti.SetFgBgRGB != "" || ti.SetFgRGB != "" || ti.SetBgRGB != "") && mode != "nodirect"
	s.ncolors = ti.Colors
	if s.ncolors > 256 {
		s.ncolors = 256
	}
	s.xtermlike = ti.XTermLike || strings.HasPrefix(ti.Name, "xterm")
	s.styledUl = s.xtermlike || ti.CurlyUnderline != ""
	s.hasURL = !strings.Contains(ti.Name, "linux") && (ti.EnterUrl != "" || ti.Mouse != "" || s.xtermlike)
	if ti.ResetFgBg != "" {
		tm := vt.New(2, 1)
		b, _, _ := tiref.StripPadding(ti.ResetFgBg)
		tm.Feed(b)
		s.aliasFg, s.aliasBg = tm.Pen.Fg, tm.Pen.Bg
	}
	return s
}

func (s *session) label() string { return s.name + "/" + s.mode }

// family groups entries for violation signatures.
func (s *session) family() string {
	n := s.name
	switch {
	case n == "beterm" || n == "cygwin" || strings.HasPrefix(n, "sun"):
		return "insert-char-trick"
	case s.ti.Colors == 0:
		return "mono"
	case s.truecolor:
		return "direct-colour"
	}
	return fmt.Sprintf("%d-colour", s.ncolors)
}

// nearest returns the set of palette indices at minimal CIE76 distance.
func nearest(c tcell.Color, n int) map[int]bool {
	hex := c.Hex()
	l1, a1, b1 := colorref.Lab(hex)
	best := -1.0
	ds := make([]float64, n)
	for i := 0; i < n; i++ {
		l2, a2, b2 := colorref.Lab(colorref.Palette(i))
		d := colorref.Dist(l1, a1, b1, l2, a2, b2)
		ds[i] = d
		if best < 0 || d < best {
			best = d
		}
	}
	out := map[int]bool{}
	for i, d := range ds {
		if d <= best+1e-9 {
			out[i] = true
		}
	}
	return out
}

// colOK: is the colour the terminal shows (got) what the statement promises
// for the requested colour (want)?  which is "fg" or "bg"; reset says whether
// the style asked for ColorReset in fg or bg (op-string alias rule).
func (s *session) colOK(want tcell.Color, got vt.Col, which string, reset bool, rgbCap bool) bool {
	if s.ti.Colors == 0 {
		return true
	}
	if !want.Valid() {
		if got.K == vt.Default {
			return true
		}
		if reset {
			alias := s.aliasFg
			if which == "bg" {
				alias = s.aliasBg
			}
			return got == alias
		}
		return false
	}
	if want.IsRGB() && s.truecolor && rgbCap {
		return got.K == vt.RGB && int32(got.V) == want.Hex()
	}
	if !want.IsRGB() && int(want&0xffffff) < s.ncolors {
		return got.K == vt.Indexed && got.V == int(want&0xff)
	}
	if want.Hex() < 0 {
		return true // a "valid" colour with no RGB value: nothing is promised
	}
	return got.K == vt.Indexed && nearest(want, s.ncolors)[got.V]
}

// penDiff compares one resolved style with the emulator's pen of a cell.
func (s *session) penDiff(want shadow.Spec, got vt.Pen) string {
	ti := s.ti
	var d []string
	reset := want.Fg == tcell.ColorReset || want.Bg == tcell.ColorReset
	fgCap := ti.SetFgRGB != "" || (ti.SetFgBgRGB != "" && want.Fg.IsRGB() && want.Bg.IsRGB())
	bgCap := ti.SetBgRGB != "" || (ti.SetFgBgRGB != "" && want.Fg.IsRGB() && want.Bg.IsRGB())
	mono := ti.Colors == 0 && want.Fg.Valid()
	if !s.colOK(want.Fg, got.Fg, "fg", reset, fgCap) {
		d = append(d, fmt.Sprintf("fg want %v got %v", colName(want.Fg), got.Fg))
	}
	if !s.colOK(want.Bg, got.Bg, "bg", reset, bgCap) {
		d = append(d, fmt.Sprintf("bg want %v got %v", colName(want.Bg), got.Bg))
	}
	chk := func(name string, w bool, cap string, g bool) {
		if (w && cap != "") != g {
			d = append(d, fmt.Sprintf("%s want %v got %v", name, w && cap != "", g))
		}
	}
	chk("bold", want.Bold, ti.Bold, got.Bold)
	chk("dim", want.Dim, ti.Dim, got.Dim)
	chk("italic", want.Italic, ti.Italic, got.Italic)
	chk("blink", want.Blink, ti.Blink, got.Blink)
	chk("strike", want.Strike, ti.StrikeThrough, got.Strike)
	if !mono {
		chk("reverse", want.Rev, ti.Reverse, got.Rev)
	}
	wus := want.Us
	if wus > 1 && !s.styledUl {
		wus = 1
	}
	if wus == 1 && ti.Underline == "" {
		wus = 0
	}
	if wus != got.UlStyle {
		d = append(d, fmt.Sprintf("underline-style want %d got %d", wus, got.UlStyle))
	}
	if want.Us != 0 && s.styledUl {
		switch {
		case !want.Ul.Valid():
			if got.Ul.K != vt.Default {
				d = append(d, fmt.Sprintf("underline-colour want default got %v", got.Ul))
			}
		case want.Ul.IsRGB():
			if got.Ul.K != vt.RGB || int32(got.Ul.V) != want.Ul.Hex() {
				d = append(d, fmt.Sprintf("underline-colour want %v got %v", colName(want.Ul), got.Ul))
			}
		default:
			if got.Ul.K != vt.Indexed || got.Ul.V != int(want.Ul&0xff) {
				d = append(d, fmt.Sprintf("underline-colour want %v got %v", colName(want.Ul), got.Ul))
			}
		}
	}
	wu, wid := "", ""
	if s.hasURL && want.Url != "" {
		wu = want.Url
		if want.Id != "" {
			wid = "id=" + want.Id
		}
	}
	if wu != got.Url || wid != got.UrlID {
		d = append(d, fmt.Sprintf("hyperlink want %q/%q got %q/%q", wu, wid, got.Url, got.UrlID))
	}
	return strings.Join(d, "; ")
}

func colName(c tcell.Color) string {
	switch {
	case c == tcell.ColorDefault:
		return "default"
	case c == tcell.ColorReset:
		return "reset"
	case c.IsRGB():
		return fmt.Sprintf("#%06x", c.Hex())
	case c.Valid():
		return fmt.Sprintf("palette%d", int(c&0xffffff))
	}
	return fmt.Sprintf("%#x", uint64(c))
}

// viol is what one execution of a history found first.
type viol struct {
	prop string // C01 C13 C09
	cat  string // category (signature component)
	what string
}

func (v *viol) String() string { return v.prop + ":" + v.cat + " | " + v.what }

// execOpts tunes one execution.
type execOpts struct {
	props map[string]bool // which properties' oracles are armed
	stats *execStats
}

type execStats struct {
	cellsCompared, shows, syncs, resizes, controls, unknownControls, textRunes int64
	unknown                                                                    map[string]int
	hyperlinkLeftOpen                                                          int64
	grammarErrors                                                              int64
}

// execHistory runs one draw history on a fresh real screen over the fake tty
// and the reference terminal, in lock-step with the shadow model.
func execHistory(se *session, w, h int, ops []shadow.Op, eo execOpts) *viol {
	term := vt.New(w, h)
	term.FFClears = strings.HasPrefix(se.name, "sun")
	term.Acs = vt.BuildAcs(se.ti.AltChars)
	term.Dec = se.dec
	ft := faketty.New(w, h)
	ft.OnWrite = func(b []byte) { term.Feed(b) }
	s, err := tcell.NewTerminfoScreenFromTtyTerminfo(ft, CopyTI(se.ti))
	if err != nil {
		return &viol{"C01", "new-screen", err.Error()}
	}
	ft.BeginApp()
	err = s.Init()
	ft.EndApp()
	if err != nil {
		return &viol{"C01", "init", err.Error()}
	}
	evq := make(chan tcell.Event, 64)
	quitPoll := make(chan struct{})
	go s.ChannelEvents(evq, quitPoll)
	defer func() {
		done := make(chan struct{})
		go func() {
			ft.BeginFini()
			ft.BeginApp()
			s.Fini()
			ft.EndApp()
			close(done)
		}()
		select {
		case <-done:
		case <-time.After(30 * time.Second):
		}
		close(quitPoll)
		if eo.stats != nil {
			eo.stats.controls += int64(term.Controls)
			eo.stats.textRunes += int64(term.TextRunes)
			for k, v := range term.Unknown {
				eo.stats.unknownControls += int64(v)
				if eo.stats.unknown == nil {
					eo.stats.unknown = map[string]int{}
				}
				eo.stats.unknown[k] += v
			}
		}
	}()
	app := func(f func()) {
		ft.BeginApp()
		f()
		ft.EndApp()
	}
	m := shadow.NewModel(w, h)
	var prev []shadow.Disp
	unlocked := map[int]bool{}
	touched := map[int]bool{}
	wideSince := map[int]bool{}  // cells that were wide at the previous Show or at any time since
	defHist := []shadow.Spec{{}} // default styles since the last full redraw
	touch := func(x, y int, r rune, comb []rune, sp shadow.Spec) {
		i := y*m.W + x
		c := m.C[i]
		nsp := sp
		if nsp.Fg == tcell.ColorNone {
			nsp.Fg = c.St.Fg
		}
		if nsp.Bg == tcell.ColorNone {
			nsp.Bg = c.St.Bg
		}
		if c.R != r || c.St != nsp || !runesEq(c.Comb, comb) {
			touched[i] = true
		}
		if (!shadow.MustBlank(c.R) && shadow.Width(c.R) == 2) || (!shadow.MustBlank(r) && shadow.Width(r) == 2) {
			wideSince[i] = true
		}
	}
	trick := se.ti.AutoMargin && se.ti.DisableAutoMargin == "" && se.ti.InsertChar != ""
	check := func(what string, full bool) *viol {
		if eo.props["C09"] {
			if len(term.Errors) > 0 {
				return &viol{"C09", errClass(term.Errors[0]), fmt.Sprintf("%s: %s (%d problem(s))", what, term.Errors[0], term.NErrors)}
			}
			if !term.InGround() {
				return &viol{"C09", "incomplete-sequence", what + ": the output ends inside a control sequence or multi-byte character"}
			}
		} else if len(term.Errors) > 0 {
			// malformed output is C09's business; the reference terminal has done what a
			// conforming terminal does with it (ignored it) and the display is judged as it is
			if eo.stats != nil {
				eo.stats.grammarErrors += int64(term.NErrors)
			}
			term.Errors, term.NErrors = nil, 0
		}
		if errs, _, _ := ft.Snapshot(); len(errs) > 0 && eo.props["C04"] {
			return &viol{"C04", "tty-contract", what + ": " + errs[0]}
		}
		if term.W != m.W || term.H != m.H {
			return &viol{"C01", "harness", "model and emulator sizes differ"}
		}
		exp := m.Expected()
		trickN := -1
		if trick && m.W >= 2 {
			trickN = (m.H-1)*m.W + m.W - 2
		}
		for y := 0; y < m.H; y++ {
			for x := 0; x < m.W; x++ {
				i := y*m.W + x
				e := exp[i]
				g := term.At(x, y)
				if m.C[i].Lock {
					if g.Stamp == term.Stamp && eo.props["C13"] && i != trickN {
						// the covered half of a wide rune whose base cell is not locked is the
						// application's own doing
						if !(e.Cont && x > 0 && !m.C[i-1].Lock) {
							return &viol{"C13", "locked-cell-written", fmt.Sprintf("%s: locked cell (%d,%d) was written", what, x, y)}
						}
					}
					continue
				}
				if eo.stats != nil {
					eo.stats.cellsCompared++
				}
				if e.Cont {
					if x > 0 && m.C[i-1].Lock {
						continue
					}
					if !g.Cont && eo.props["C01"] {
						return &viol{"C01", "content:continuation", fmt.Sprintf("%s: (%d,%d) should be the right half of the wide rune at its left, terminal shows %q", what, x, y, g.R)}
					}
					continue
				}
				if x+1 < m.W && e.Wide && m.C[i+1].Lock {
					continue // a wide rune whose right half is locked: application's own doing
				}
				if eo.props["C01"] {
					runeOK := g.R == e.R
					if !runeOK {
						for _, a := range g.AcsSet {
							if a == e.R {
								runeOK = true
							}
						}
					}
					if !runeOK || g.Wide != e.Wide || g.Cont || !runesEq(g.Comb, e.Comb) {
						return &viol{"C01", "content:" + runeClass(e, g), fmt.Sprintf("%s: (%d,%d) want %q%U wide=%v, terminal shows %q%U wide=%v cont=%v", what, x, y, e.R, e.Comb, e.Wide, g.R, g.Comb, g.Wide, g.Cont)}
					}
					// style, three-valued for cells holding StyleDefault after SetStyle
					var diff string
					if e.DefStyle {
						diff = "x"
						for _, dsp := range defHist {
							if diff = se.penDiff(normSpec(dsp), g.Pen); diff == "" {
								break
							}
						}
					} else {
						diff = se.penDiff(normSpec(e.St), g.Pen)
					}
					if diff != "" {
						return &viol{"C01", "style:" + strings.SplitN(diff, " want", 2)[0], fmt.Sprintf("%s: (%d,%d) %q style %s: %s", what, x, y, e.R, e.St.Short(), diff)}
					}
				}
			}
		}
		if eo.props["C13"] && !full && prev != nil && len(prev) == len(exp) {
			for i := range exp {
				g := &term.Cells[i]
				x := i % m.W
				if g.Stamp != term.Stamp {
					if unlocked[i] && !m.C[i].Lock && !exp[i].Cont {
						return &viol{"C13", "unlocked-cell-not-repainted", fmt.Sprintf("%s: cell (%d,%d) was unlocked since the previous Show but not repainted", what, x, i/m.W)}
					}
					continue
				}
				if m.C[i].Lock {
					continue
				}
				// right neighbour of a wide rune that CHANGED (directly, or by being covered /
				// uncovered through a change one column further left)
				wideAt := func(j int) bool { return wideSince[j] || prev[j].Wide || exp[j].Wide }
				allowed := func(i int) bool {
					x := i % m.W
					nb := (x > 0 && touched[i-1] && wideAt(i-1)) || (x > 1 && touched[i-2] && (wideAt(i-2) || wideAt(i-1)))
					trickCell := trickN >= 0 && (i == trickN || i == trickN+1 || (i == trickN-1 && exp[trickN].Cont))
					// a cell whose displayed content differs from what the previous Show left (a chain of
					// overlapping wide runes covered / uncovered further left) has to be written for C01
					dispChanged := !reflect.DeepEqual(prev[i], exp[i])
					return touched[i] || nb || unlocked[i] || trickCell || dispChanged
				}
				ok := allowed(i)
				if !ok && exp[i].Cont && x > 0 {
					// the right half of a wide rune is written together with its base, and only then
					ok = allowed(i-1) && !m.C[i-1].Lock
				}
				if !ok {
					cat := "unchanged-cell-redrawn"
					if m.C[i].R == 0 {
						cat += ":nul-rune" // the application stored U+0000 (again) in this cell
					}
					return &viol{"C13", cat, fmt.Sprintf("%s: cell (%d,%d) was written although nothing changed there since the previous Show (was %+v, is %+v)", what, x, i/m.W, dispStr(prev[i]), dispStr(exp[i]))}
				}
			}
		}
		if eo.props["C01"] {
			if m.CX >= 0 && m.CY >= 0 && m.CX < m.W && m.CY < m.H {
				if term.X != m.CX || term.Y != m.CY || (se.ti.ShowCursor != "" && !term.CursorVis) {
					return &viol{"C01", "cursor:position", fmt.Sprintf("%s: cursor want (%d,%d) visible, terminal has (%d,%d) visible=%v", what, m.CX, m.CY, term.X, term.Y, term.CursorVis)}
				}
				if m.CSSet {
					if want, ok := se.cursorStyleCode(m.CS); ok && term.CursorStyle != want {
						return &viol{"C01", "cursor:style", fmt.Sprintf("%s: cursor style want DECSCUSR %d, terminal has %d", what, want, term.CursorStyle)}
					}
				}
				if m.CCSet && m.CC.Valid() {
					want := fmt.Sprintf("#%06x", m.CC.Hex())
					if !strings.EqualFold(term.CursorColor, want) {
						return &viol{"C01", "cursor:colour", fmt.Sprintf("%s: cursor colour want %s, terminal has %q", what, want, term.CursorColor)}
					}
				}
			} else if se.ti.HideCursor != "" {
				if term.CursorVis {
					return &viol{"C01", "cursor:not-hidden", what + ": cursor should be hidden"}
				}
			} else if term.X != m.W-1 || term.Y != m.H-1 {
				return &viol{"C01", "cursor:not-parked", fmt.Sprintf("%s: hidden cursor should be parked at (%d,%d), terminal has (%d,%d)", what, m.W-1, m.H-1, term.X, term.Y)}
			}
		}
		prev = exp
		unlocked = map[int]bool{}
		touched = map[int]bool{}
		wideSince = map[int]bool{}
		if full {
			defHist = []shadow.Spec{m.Def}
		}
		return nil
	}
	seenResizes, expectedResizes := 0, 1 // Init posts the first one
	show := func() {
		app(func() { s.Show() })
		if eo.stats != nil {
			eo.stats.shows++
		}
	}
	show()
	if v := check("first show", true); v != nil {
		return v
	}
	for oi, o := range ops {
		tag := fmt.Sprintf("op %d %s", oi, o.K)
		switch o.K {
		case "set", "setcell":
			in := m.In(o.X, o.Y)
			if in && m.IsHidden(o.X, o.Y) && !(eo.props["C13"] && len(eo.props) == 1) {
				// What the display shows after a store into the hidden half of a wide rune is
				// undefined (API note on SetContent), so C01 and C09 never do it. Which cells a
				// Show writes is still stated: the wide rune to the left did not change, so with
				// only C13's oracle armed the store is made (the covered cell counts as changed).
				continue
			}
			st := o.Sp.Style()
			if o.K == "setcell" {
				app(func() { s.SetCell(o.X, o.Y, st, append([]rune{o.R}, o.Comb...)...) })
			} else {
				app(func() { s.SetContent(o.X, o.Y, o.R, o.Comb, st) })
			}
			if in {
				touch(o.X, o.Y, o.R, o.Comb, o.Sp)
				m.Set(o.X, o.Y, o.R, o.Comb, o.Sp)
			}
		case "restore":
			if !m.In(o.X, o.Y) || m.IsHidden(o.X, o.Y) {
				continue
			}
			c := m.C[o.Y*m.W+o.X]
			st := c.St.Style()
			switch {
			case o.CS >= 3:
				nc := shadow.Recomb(c.Comb)
				if nc == nil {
					continue
				}
				app(func() { s.SetContent(o.X, o.Y, c.R, nc, st) })
				touch(o.X, o.Y, c.R, nc, c.St)
				m.Set(o.X, o.Y, c.R, nc, c.St)
			case o.CS == 0:
				app(func() { s.SetContent(o.X, o.Y, c.R, append([]rune(nil), c.Comb...), st) })
			case o.CS == 1:
				app(func() { s.SetContent(o.X, o.Y, c.R, append([]rune{}, c.Comb...), st) })
			default:
				app(func() { s.SetCell(o.X, o.Y, st, append([]rune{c.R}, c.Comb...)...) })
			}
		case "fill", "clear":
			r, sp := o.R, o.Sp
			if o.K == "clear" {
				r, sp = ' ', shadow.Spec{}
				app(func() { s.Clear() })
			} else {
				app(func() { s.Fill(r, sp.Style()) })
			}
			for y := 0; y < m.H; y++ {
				for x := 0; x < m.W; x++ {
					touch(x, y, r, nil, sp)
					m.Set(x, y, r, nil, sp)
				}
			}
		case "setstyle":
			app(func() { s.SetStyle(o.Sp.Style()) })
			m.Def = o.Sp
			defHist = append(defHist, o.Sp)
			// cells holding StyleDefault change appearance only when redrawn: they may
			// be repainted at any later Show
			for i := range m.C {
				if m.C[i].St.IsDefault() {
					touched[i] = true
				}
			}
		case "cursor":
			m.CX, m.CY = o.X, o.Y
			app(func() { s.ShowCursor(o.X, o.Y) })
		case "hidecursor":
			m.CX, m.CY = -1, -1
			app(func() { s.HideCursor() })
		case "cursorstyle":
			m.CS, m.CSSet = o.CS, true
			if o.HasCC {
				m.CC, m.CCSet = o.CC, true
				app(func() { s.SetCursorStyle(tcell.CursorStyle(o.CS), o.CC) })
			} else {
				m.CC, m.CCSet = tcell.ColorNone, true
				app(func() { s.SetCursorStyle(tcell.CursorStyle(o.CS)) })
			}
		case "show":
			show()
			if v := check(tag, false); v != nil {
				return v
			}
			show()
			if eo.props["C13"] {
				for i := range term.Cells {
					if term.Cells[i].Stamp == term.Stamp {
						return &viol{"C13", "idle-show-wrote-cell", fmt.Sprintf("%s: a Show() directly after a Show() wrote cell (%d,%d)", tag, i%m.W, i/m.W)}
					}
				}
			}
		case "sync", "corruptsync":
			if o.K == "corruptsync" {
				scribble(ft, term, '!')
			}
			app(func() { s.Sync() })
			if eo.stats != nil {
				eo.stats.syncs++
			}
			if v := check(tag, true); v != nil {
				return v
			}
		case "failshow":
			// the terminal stops accepting output in the middle of a Show; the next Show finds
			// nothing changed and must not write cell content (whatever was lost is lost: the
			// application repairs the display with Sync)
			if !eo.props["C13"] || eo.props["C01"] {
				continue
			}
			ft.Locked(func() { ft.FailWriteAfter = o.X })
			show()
			ft.Locked(func() { ft.FailWriteAfter = -1 })
			show()
			for i := range term.Cells {
				if term.Cells[i].Stamp == term.Stamp {
					return &viol{"C13", "idle-show-wrote-cell:after-write-error", fmt.Sprintf("%s: the Show() after a Show() whose output the tty refused (after %d bytes) wrote cell (%d,%d) although nothing changed in between", tag, o.X, i%m.W, i/m.W)}
				}
			}
			app(func() { s.Sync() })
			if v := check(tag, true); v != nil {
				return v
			}
		case "suspres":
			// the terminal goes to another program and comes back: whatever that program left
			// on it, the first Show after Resume re-establishes the logical contents
			// (the statement does not say what survives a Suspend: the application releases its
			// locks and stores everything again, as applications do after taking the terminal back)
			app(func() { _ = s.Suspend() })
			scribble(ft, term, '@')
			app(func() { _ = s.Resume() })
			for i := range m.C {
				if m.C[i].Lock {
					// (only where something is locked: unlocking forces a repaint, which would
					// hide a screen that wrongly believes its cells are still displayed)
					x, y := i%m.W, i/m.W
					app(func() { s.LockRegion(x, y, 1, 1, false) })
					m.C[i].Lock = false
					unlocked[i] = true
				}
			}
			for y := 0; y < m.H; y++ {
				// right to left: a cell hidden under a wide rune is stored before that rune
				for x := m.W - 1; x >= 0; x-- {
					c := m.C[y*m.W+x]
					app(func() { s.SetContent(x, y, c.R, append([]rune(nil), c.Comb...), c.St.Style()) })
				}
			}
			show()
			if v := check(tag, true); v != nil {
				return v
			}
		case "resize", "resizecb":
			if o.W == m.W && o.H == m.H {
				continue
			}
			ft.Locked(func() { term.Resize(o.W, o.H) })
			ft.SetSize(o.W, o.H)
			scribble(ft, term, '?')
			m.Resize(o.W, o.H)
			if eo.stats != nil {
				eo.stats.resizes++
			}
			if o.K == "resizecb" {
				// the terminal reports the new size: wait (logically) for the resize
				// event, then take the screen lock once so that the redraw is complete
				if !ft.NotifyNow() {
					return &viol{"C01", "resize:no-callback", tag + ": no resize callback registered"}
				}
				// every size change (Init included) posts exactly one resize event:
				// consume events until the one of this change has been seen
				expectedResizes++
				deadline := time.After(30 * time.Second)
				for seenResizes < expectedResizes {
					select {
					case ev := <-evq:
						if rz, ok := ev.(*tcell.EventResize); ok {
							seenResizes++
							if ww, hh := rz.Size(); seenResizes == expectedResizes && (ww != o.W || hh != o.H) {
								return &viol{"C01", "resize:event-size", fmt.Sprintf("%s: resize event reports %dx%d", tag, ww, hh)}
							}
						}
					case <-deadline:
						return &viol{"INCONCLUSIVE", "resize-event-timeout", tag}
					}
				}
				app(func() { s.Size() })
				if v := check(tag, true); v != nil {
					return v
				}
			} else {
				expectedResizes++
				show()
				if v := check(tag, true); v != nil {
					return v
				}
			}
		case "lock":
			app(func() { s.LockRegion(o.X, o.Y, o.W, o.H, o.Lock) })
			for j := o.Y; j < o.Y+o.H && j < m.H; j++ {
				for i2 := o.X; i2 < o.X+o.W && i2 < m.W; i2++ {
					if j < 0 || i2 < 0 {
						continue
					}
					m.C[j*m.W+i2].Lock = o.Lock
					if !o.Lock {
						unlocked[j*m.W+i2] = true
					}
				}
			}
		}
	}
	return nil
}

// normSpec maps ColorReset to "default" for comparison purposes; the reset
// alias rule is applied in colOK through the original value, so keep Reset.
func normSpec(s shadow.Spec) shadow.Spec {
	if s.Fg == tcell.ColorNone {
		s.Fg = tcell.ColorDefault
	}
	if s.Bg == tcell.ColorNone {
		s.Bg = tcell.ColorDefault
	}
	if s.Ul == tcell.ColorReset {
		s.Ul = tcell.ColorDefault
	}
	return s
}

func dispStr(d shadow.Disp) string {
	if d.Cont {
		return "(right half)"
	}
	return fmt.Sprintf("%q%U %s", d.R, d.Comb, d.St.Short())
}

func runeClass(e shadow.Disp, g *vt.Cell) string {
	switch {
	case e.Wide || g.Wide:
		return "wide"
	case len(e.Comb) > 0 || len(g.Comb) > 0:
		return "combining"
	case e.R == ' ':
		return "blank"
	}
	return "narrow"
}

func errClass(e string) string {
	switch {
	case strings.Contains(e, "residue"):
		return "residue"
	case strings.Contains(e, "control") || strings.Contains(e, "C0") || strings.Contains(e, "C1"):
		return "control-byte-as-payload"
	case strings.Contains(e, "utf8") || strings.Contains(e, "undecodable") || strings.Contains(e, "multi-byte"):
		return "undecodable-text"
	case strings.Contains(e, "CSI") || strings.Contains(e, "OSC") || strings.Contains(e, "ESC") || strings.Contains(e, "SGR"):
		return "malformed-control"
	case strings.Contains(e, "wide char"):
		return "wide-rune-at-margin"
	case strings.Contains(e, "combining"):
		return "orphan-combining"
	case strings.Contains(e, "scroll"):
		return "scroll"
	}
	return "other"
}

// cursorStyleCode: the DECSCUSR parameter the entry's string for the style sets.
func (s *session) cursorStyleCode(cs int) (int, bool) {
	ti := s.ti
	var str string
	if ti.CursorDefault != "" {
		str = []string{ti.CursorDefault, ti.CursorBlinkingBlock, ti.CursorSteadyBlock, ti.CursorBlinkingUnderline, ti.CursorSteadyUnderline, ti.CursorBlinkingBar, ti.CursorSteadyBar}[cs]
	} else if ti.Mouse != "" || s.xtermlike {
		return cs, true
	}
	if str == "" {
		return 0, false
	}
	tm := vt.New(2, 1)
	b, _, _ := tiref.StripPadding(str)
	tm.Feed(b)
	if tm.CursorStyle < 0 {
		return 0, false
	}
	return tm.CursorStyle, true
}

// scribble corrupts the terminal from outside: every other cell gets a marker
// in bold yellow, the cursor moves; the bytes go through the emulator so that
// the grid stays consistent, but do not count as writes of the application.
func scribble(ft *faketty.Tty, term *vt.Term, ch byte) {
	ft.Locked(func() {
		var b []byte
		b = append(b, []byte("\x1b[0m")...)
		for y := 0; y < term.H; y++ {
			for x := (y % 2); x < term.W; x += 2 {
				b = append(b, []byte(fmt.Sprintf("\x1b[%d;%dH\x1b[1;33;44m%c", y+1, x+1, ch))...)
			}
		}
		b = append(b, []byte("\x1b[1;1H")...)
		res := term.Residue
		term.FeedQuiet(b)
		term.Residue = res
	})
}

var _ = reflect.DeepEqual
