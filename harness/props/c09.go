package props

import (
	"bytes"
	"fmt"
	"os"
	"strings"
	"sync"
	"unicode"
	"unicode/utf8"

	"github.com/gdamore/tcell/v2"
	"github.com/gdamore/tcell/v2/terminfo"
	xenc "golang.org/x/text/encoding"
	"golang.org/x/text/encoding/charmap"
	"golang.org/x/text/transform"

	"verif/core"
	"verif/faketty"
	"verif/shadow"
	"verif/tiref"
	"verif/vt"
)

func init() { register("C09", C09) }

// c09locale selects the locale through LC_ALL and puts a contradicting value of lower
// priority into LANG (a UTF-8 one under a legacy LC_ALL and vice versa): the output must
// follow LC_ALL.
func c09locale(lcAll string) {
	os.Setenv("LC_ALL", lcAll)
	os.Unsetenv("LC_CTYPE")
	if strings.Contains(strings.ToUpper(lcAll), "UTF-8") {
		os.Setenv("LANG", "en_US.ISO8859-1")
	} else {
		os.Setenv("LANG", "en_US.UTF-8")
	}
}

// xtextDecoder adapts an x/text encoding to the emulator's Decoder.
func xtextDecoder(enc xenc.Encoding) vt.Decoder {
	d := enc.NewDecoder()
	fffd, ferr := enc.NewEncoder().Bytes([]byte("\uFFFD"))
	if ferr != nil {
		fffd = nil
	}
	return func(b []byte) (rune, int, bool) {
		out := make([]byte, 16)
		for k := 1; k <= len(b) && k <= 4; k++ {
			d.Reset()
			nOut, nIn, err := d.Transform(out, b[:k], false)
			if err == transform.ErrShortSrc {
				continue
			}
			if err != nil || nOut == 0 || nIn != k {
				return 0, 0, false
			}
			r, sz := utf8.DecodeRune(out[:nOut])
			if r == utf8.RuneError && sz == 3 && nOut == 3 && fffd != nil && bytes.Equal(fffd, b[:k]) {
				return r, k, false // the charset's own encoding of U+FFFD (GB18030: 84 31 A4 37)
			}
			if r == utf8.RuneError || sz != nOut {
				return 0, 0, false
			}
			return r, k, false
		}
		return 0, 0, len(b) < 4
	}
}

// c09MustBlank: the lower bound of runes that must be shown as blanks.
func c09MustBlank(r rune) bool {
	switch {
	case r < 0x20, r == 0x7f, r >= 0x80 && r < 0xa0:
		return true
	case r >= 0x200b && r <= 0x200f, r >= 0x2028 && r <= 0x202e, r >= 0x2060 && r <= 0x2069, r == 0xfeff:
		return true
	case r >= 0xd800 && r < 0xe000, r > 0x10ffff:
		return true
	case unicode.Is(unicode.Mn, r) || unicode.Is(unicode.Me, r):
		return shadow.Width(r) == 0
	}
	return false
}

// capture is a pair (screen, raw output since last take).
type capScreen struct {
	s   tcell.Screen
	ft  *faketty.Tty
	buf []byte
	mu  sync.Mutex
}

func newCapScreen(ti *terminfo.Terminfo, w, h int) (*capScreen, error) {
	c := &capScreen{}
	tic := CopyTI(ti)
	tic.PadChar = ""
	c.ft = faketty.New(w, h)
	c.ft.OnWrite = func(b []byte) { c.buf = append(c.buf, b...) }
	s, err := tcell.NewTerminfoScreenFromTtyTerminfo(c.ft, tic)
	if err != nil {
		return nil, err
	}
	c.ft.BeginApp()
	err = s.Init()
	c.ft.EndApp()
	if err != nil {
		return nil, err
	}
	c.s = s
	return c, nil
}

func (c *capScreen) take() []byte {
	var b []byte
	c.ft.Locked(func() { b = append([]byte(nil), c.buf...); c.buf = c.buf[:0] })
	return b
}

func (c *capScreen) do(f func(s tcell.Screen)) {
	c.ft.BeginApp()
	f(c.s)
	c.ft.EndApp()
}

func (c *capScreen) fini() {
	c.ft.BeginFini()
	c.ft.BeginApp()
	c.s.Fini()
	c.ft.EndApp()
}

func C09(r *core.Run) {
	r.Rule = "(1) every byte written in the C01 draw histories (all 45 ECMA-48-family entries x colour modes) goes through the strict ECMA-48 tokenizer and the residue rule; (2) injection sweep: for every rune in the sweep set as primary content via SetContent, SetCell and Fill, at the first, middle, w-2 and last column, in UTF-8 and two 8-bit locales: must-blank runes (C0, DEL, C1, zero-width/bidi/format characters, surrogates, out-of-range, Mn/Me marks) must produce output byte-identical to a blank's on a twin screen; every other rune's output must tokenize with no control byte as payload. quick: all must-blank classes + every 61st code point + neighbourhoods; thorough: every code point 0..0x10FFFF. (3) all static capability strings of the 45 entries tokenize. distinct by construction (rune x entry point x column x locale); histories distinct by (configuration, index)."
	r.Assumptions = []string{"A1-A4 of C01", "generated content, titles and URLs contain no '%' or '$', so either in the output is parameter-language residue", "must-blank is a lower bound that no reasonable width table contradicts"}

	// ---- (1) histories ----
	c09locale("C.UTF-8")
	defer func() { os.Setenv("LC_ALL", "C.UTF-8"); os.Unsetenv("LANG"); os.Unsetenv("LC_CTYPE") }()
	armed := map[string]bool{"C09": true}
	nh := r.Pick(40, 1000)
	sessions := sessionsFor("asis", "direct")
	core.Parallel(len(sessions), func(si int) {
		se := sessions[si]
		for hi := 0; hi < nh; hi++ {
			rg := r.Rand("hist", se.label(), hi)
			w, h, ops := shadow.Gen(rg, shadow.GenOpts{MaxW: 16, MaxH: 6, Urls: true, WeirdColors: true, SuspendResume: true})
			st := &execStats{}
			v := execHistory(se, w, h, ops, execOpts{props: armed, stats: st})
			r.Count("history_controls_tokenized", st.controls)
			r.Count("history_text_runes", st.textRunes)
			r.Case(fmt.Sprintf("hist|%s|%d", se.label(), hi))
			if v != nil && v.prop == "C09" {
				_, _, ops2, v2 := shrink(se, w, h, ops, execOpts{props: armed}, v)
				r.Violate("history:"+v2.cat+"|"+se.family(), fmt.Sprintf("%s: %s :: history: %s", se.label(), v2.what, shadow.OpsString(ops2)), map[string]any{"configuration": se.label(), "ops": ops2})
			}
		}
	})

	// the same histories in an 8-bit locale (legacy charset output, ACS glyphs)
	c09locale("en_US.ISO8859-1")
	sessions8 := sessionsFor("asis")
	for _, se := range sessions8 {
		se.dec = xtextDecoder(charmap.ISO8859_1)
		se.charset = "ISO8859-1"
	}
	nh8 := r.Pick(15, 400)
	core.Parallel(len(sessions8), func(si int) {
		se := sessions8[si]
		for hi := 0; hi < nh8; hi++ {
			rg := r.Rand("hist8", se.label(), hi)
			w, h, ops := shadow.Gen(rg, shadow.GenOpts{MaxW: 16, MaxH: 6, Urls: true, WeirdColors: true, SuspendResume: true})
			st := &execStats{}
			v := execHistory(se, w, h, ops, execOpts{props: armed, stats: st})
			r.Count("history_controls_tokenized", st.controls)
			r.Count("history_text_runes", st.textRunes)
			r.Case(fmt.Sprintf("hist8|%s|%d", se.label(), hi))
			if v != nil && v.prop == "C09" {
				_, _, ops2, v2 := shrink(se, w, h, ops, execOpts{props: armed}, v)
				r.Violate("history:"+v2.cat+"|"+se.family()+"|ISO8859-1", fmt.Sprintf("%s (LC_ALL=en_US.ISO8859-1): %s :: history: %s", se.label(), v2.what, shadow.OpsString(ops2)), map[string]any{"configuration": se.label(), "ops": ops2})
			}
		}
	})
	c09locale("C.UTF-8")

	// ---- (3) static capability strings ----
	for _, ti := range ECMAEntries() {
		for f, v := range StringFields(ti) {
			if v == "" || strings.HasPrefix(f, "Key") || strings.Contains(v, "%") || f == "Name" || f == "AltChars" || f == "PadChar" || f == "Mouse" || f == "PasteStart" || f == "PasteEnd" {
				continue
			}
			b, _, _ := tiref.StripPadding(v)
			tm := vt.New(10, 4)
			tm.FFClears = strings.HasPrefix(ti.Name, "sun")
			tm.Feed(b)
			if len(tm.Errors) > 0 || !tm.InGround() {
				r.Violate("capability:malformed:"+f, fmt.Sprintf("%s.%s = %q does not parse as complete control sequences: %v", ti.Name, f, v, tm.Errors), nil)
			}
			for k := range tm.Unknown {
				r.Count("static_capability_controls_unknown_to_emulator", 1)
				_ = k
			}
			r.CaseN(1, 1)
		}
	}

	// ---- (2) injection sweep ----
	type loc struct {
		lc    string
		cs    string
		dec   vt.Decoder
		entry string
	}
	locs := []loc{
		{"en_US.UTF-8", "UTF-8", nil, "xterm-256color"},
		{"en_US.ISO8859-1", "ISO8859-1", xtextDecoder(charmap.ISO8859_1), "vt220"},
		{"ru_RU.KOI8-R", "KOI8-R", xtextDecoder(charmap.KOI8R), "linux"},
	}
	// sweep set
	var blanks, others []rune
	for _, x := range []rune{-2, -1, 0x110000, 0x110001, 0x7fffffff} {
		blanks = append(blanks, x)
	}
	stride := rune(61)
	if !r.Quick() {
		stride = 1
	}
	for cp := rune(0); cp <= 0x10ffff; cp++ {
		if c09MustBlank(cp) {
			blanks = append(blanks, cp)
			continue
		}
		if cp%stride == 0 || cp < 0x3000 && r.Quick() && cp%7 == 0 || (cp >= 0xa0 && cp < 0x100) || cp == '%' || cp == '$' {
			others = append(others, cp)
		}
	}
	r.Set("must_blank_runes", len(blanks))
	r.Set("other_runes_swept", len(others))
	defer func() { os.Setenv("LC_ALL", "C.UTF-8"); os.Unsetenv("LANG") }()
	for li, lo := range locs {
		c09locale(lo.lc)
		ti := Pristine(lo.entry)
		if li > 0 && r.Quick() {
			// 8-bit locales in quick: all blanks, a thinner sample of the rest
			var th []rune
			for i, x := range others {
				if i%8 == 0 {
					th = append(th, x)
				}
			}
			c09sweep(r, ti, lo.cs, lo.dec, blanks, th)
		} else {
			c09sweep(r, ti, lo.cs, lo.dec, blanks, others)
		}
	}
	r.Exhaustive = !r.Quick()
	r.Sample(6, map[string]any{"kind": "injection", "rune": "U+009B", "entry_points": []string{"SetContent", "SetCell", "Fill"}, "columns": "0, w/2, w-2, w-1", "oracle": "output byte-identical to a blank's on the twin screen"})
	r.Sample(6, map[string]any{"kind": "injection", "rune": "U+4E16 (wide)", "oracle": "output tokenizes; no C0/DEL/C1 as payload"})
}

func c09sweep(r *core.Run, ti *terminfo.Terminfo, cs string, dec vt.Decoder, blanks, others []rune) {
	const W, H = 8, 2
	cols := []int{0, W / 2, W - 2, W - 1}
	nw := 16
	var n1, n2 int64
	var mu sync.Mutex
	core.Parallel(nw, func(wk int) {
		a, err := newCapScreen(ti, W, H)
		if err != nil {
			r.Inconclusive(err.Error())
			return
		}
		b, err := newCapScreen(ti, W, H)
		if err != nil {
			r.Inconclusive(err.Error())
			return
		}
		fa, _ := newCapScreen(ti, 2, 1)
		fb, _ := newCapScreen(ti, 2, 1)
		defer a.fini()
		defer b.fini()
		defer fa.fini()
		defer fb.fini()
		for _, c := range []*capScreen{a, b, fa, fb} {
			c.do(func(s tcell.Screen) { s.Show() })
			c.take()
		}
		if got := a.s.CharacterSet(); got != cs {
			r.Inconclusive(fmt.Sprintf("screen charset %q, wanted %q", got, cs))
			return
		}
		it := 0
		style := func() tcell.Style {
			it++
			if it%2 == 0 {
				return tcell.StyleDefault.Bold(true)
			}
			return tcell.StyleDefault.Underline(true)
		}
		var c1, c2 int64
		// pass 1: must-blank runes, twin comparison
		for i := wk; i < len(blanks); i += nw {
			rn := blanks[i]
			for _, x := range cols {
				for ep := 0; ep < 2; ep++ {
					st := style()
					if ep == 0 {
						a.do(func(s tcell.Screen) { s.SetContent(x, 1, rn, nil, st); s.Show() })
						b.do(func(s tcell.Screen) { s.SetContent(x, 1, ' ', nil, st); s.Show() })
					} else {
						a.do(func(s tcell.Screen) { s.SetCell(x, 0, st, rn); s.Show() })
						b.do(func(s tcell.Screen) { s.SetCell(x, 0, st, ' '); s.Show() })
					}
					oa, ob := a.take(), b.take()
					c1++
					if !bytes.Equal(oa, ob) {
						r.Violate(fmt.Sprintf("injection:%s:%s", runeKind(rn), []string{"SetContent", "SetCell"}[ep]), fmt.Sprintf("%s/%s: rune %U at column %d via %s writes %q, a blank writes %q", ti.Name, cs, rn, x, []string{"SetContent", "SetCell"}[ep], oa, ob), map[string]any{"rune": int(rn), "column": x})
					}
				}
			}
			st := style()
			fa.do(func(s tcell.Screen) { s.Fill(rn, st); s.Show() })
			fb.do(func(s tcell.Screen) { s.Fill(' ', st); s.Show() })
			oa, ob := fa.take(), fb.take()
			c1++
			if !bytes.Equal(oa, ob) {
				r.Violate("injection:"+runeKind(rn)+":Fill", fmt.Sprintf("%s/%s: Fill(%U) writes %q, Fill(' ') writes %q", ti.Name, cs, rn, oa, ob), map[string]any{"rune": int(rn)})
			}
		}
		// pass 2: every other rune: the output must be well formed
		tm := vt.New(W, H)
		tm.Dec = dec
		tm.Acs = vt.BuildAcs(ti.AltChars)
		tm.Feed([]byte(ti.DisableAutoMargin))
		tf := vt.New(2, 1)
		tf.Dec = dec
		tf.Acs = vt.BuildAcs(ti.AltChars)
		tf.Feed([]byte(ti.DisableAutoMargin))
		for i := wk; i < len(others); i += nw {
			rn := others[i]
			wide := shadow.Width(rn) == 2
			for _, x := range cols {
				st := style()
				a.do(func(s tcell.Screen) { s.SetContent(x, 1, rn, nil, st); s.Show() })
				out := a.take()
				c2++
				tm.Errors, tm.NErrors = nil, 0
				tm.Residue = rn != '%' && rn != '$'
				tm.Feed(out)
				if len(tm.Errors) > 0 || !tm.InGround() {
					r.Violate("injection:malformed-output:"+runeKind(rn), fmt.Sprintf("%s/%s: rune %U at column %d writes %q: %v", ti.Name, cs, rn, x, out, tm.Errors), map[string]any{"rune": int(rn), "column": x})
				}
			}
			if !wide {
				st := style()
				fa.do(func(s tcell.Screen) { s.Fill(rn, st); s.Show() })
				out := fa.take()
				c2++
				tf.Errors, tf.NErrors = nil, 0
				tf.Residue = rn != '%' && rn != '$'
				tf.Feed(out)
				if len(tf.Errors) > 0 || !tf.InGround() {
					r.Violate("injection:malformed-output:Fill:"+runeKind(rn), fmt.Sprintf("%s/%s: Fill(%U) writes %q: %v", ti.Name, cs, rn, out, tf.Errors), map[string]any{"rune": int(rn)})
				}
			}
		}
		mu.Lock()
		n1 += c1
		n2 += c2
		mu.Unlock()
	})
	r.CaseN(n1+n2, n1+n2)
	r.Count("injection_twin_comparisons", n1)
	r.Count("injection_wellformedness_checks", n2)
}

func runeKind(r rune) string {
	switch {
	case r < 0 || r > 0x10ffff:
		return "out-of-range"
	case r < 0x20 || r == 0x7f:
		return "C0"
	case r >= 0x80 && r < 0xa0:
		return "C1"
	case r >= 0xd800 && r < 0xe000:
		return "surrogate"
	case unicode.Is(unicode.Mn, r) || unicode.Is(unicode.Me, r):
		return "combining-mark"
	case r >= 0x2060 && r <= 0x2069:
		return "u2060-2069"
	case c09MustBlank(r):
		return "format-char"
	case shadow.Width(r) == 2:
		return "wide"
	case r < 0x80:
		return "ascii"
	}
	return "printable"
}
