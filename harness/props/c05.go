package props

import (
	"encoding/base64"
	"fmt"
	"math/rand/v2"
	"runtime"
	"sort"
	"strings"
	"sync"
	"sync/atomic"
	"time"

	"github.com/anishathalye/porcupine"
	"github.com/gdamore/tcell/v2"
	"github.com/gdamore/tcell/v2/terminfo"

	"verif/core"
	"verif/faketty"
)

func init() { register("C05", C05) }

var c05t0 = time.Now()

func c05now() int64 { return int64(time.Since(c05t0)) }

// expected input-derived event
type c05exp struct {
	ev       NEv
	cause    int64 // when the chunk holding its first byte was offered to Read (set while feeding)
	firstOff int
	// loose mouse token (wheel, extra buttons, modifiers): one or two events at its
	// coordinates, buttons not compared; optional: the report may decode to nothing
	loose, optional bool
}

// c05appEvent is an event type of the application's own.
type c05appEvent struct {
	id int64
	t  time.Time
}

func (e *c05appEvent) When() time.Time { return e.t }

type c05poll struct {
	ev     tcell.Event
	ret    int64
	when   time.Time
	whenOK bool
	whenP  any
}

// a global, shared schedule perturbation (yields and short sleeps at the verif
// schedule points, never with the screen lock held)
type c05sched struct {
	mu   sync.Mutex
	rg   *rand.Rand
	hits int64
}

func (c *c05sched) point(p string) {
	atomic.AddInt64(&c.hits, 1)
	if p == "draw.cell" || p == "draw.begin" || p == "resize.send" || p == "disengage.closed" || p == "disengage.drained" {
		return
	}
	c.mu.Lock()
	a, k := c.rg.IntN(8), 1+c.rg.IntN(3)
	c.mu.Unlock()
	switch a {
	case 0, 1:
		for i := 0; i < k; i++ {
			runtime.Gosched()
		}
	case 2:
		time.Sleep(time.Duration(20+k*100) * time.Microsecond)
	}
}

func C05(r *core.Run) {
	r.Rule = "recorded histories on a real terminfo screen (race-detector build) over the fake tty: a feeder writes a byte stream of id-carrying tokens (key runes U+4E00+id, SGR mouse reports whose coordinates encode the id on a 400x8 window, paste brackets around id runes, alternating focus reports) in random read chunks; 1-4 posters PostEvent(EventInterrupt{unique id}) recording the return value; a resize storm runs; the poller is eager, slow, absent for long stretches (both queues full, reader parked) or bursty; schedule points perturb the library. Offline checks: input-derived subsequence == expected stream (exactly once, in order); every nil Post delivered once in per-poster order, every ErrEventQFull never; When() callable and within [cause, delivery]; HasPendingEvent()==true followed by a non-blocking PollEvent (single consumer); Post/Poll/HasPending-only histories (3 posters + 1 poller, <= 60 ops) checked by porcupine against a capacity-agnostic FIFO model; ChannelEvents forwards in queue order and closes on quit and on Fini. non-trivial = history with >= 50 delivered events; distinct = distinct (seed-derived) history."
	r.Assumptions = []string{"resize events are excluded (dropped on a full queue by design)", "bytes in flight at Fini are open operations", "the queue model is capacity-agnostic: a full return is legal in any state"}
	sc := &c05sched{rg: rand.New(rand.NewPCG(uint64(r.Seed), 5))}
	tcell.VerifSetSched(sc.point)
	defer tcell.VerifSetSched(nil)
	nh := r.Pick(200, 3000)
	core.ParallelW(nh, 8, func(hi int) { c05history(r, hi) })
	np := r.Pick(400, 8000)
	core.ParallelW(np, 8, func(pi int) { c05porcupine(r, pi) })
	nc := r.Pick(60, 1200)
	core.ParallelW(nc, 8, func(ci int) { c05channel(r, ci) })
	c05stall(r)
	c05pendingStall(r)
	c05escResize(r)
	c05focusTail(r)
	c05preInit(r)
	c05acrossSuspend(r)
	// input whose reads fill the reader's buffer exactly is delivered without further input
	c02fullRead(r)
	r.Count("schedule_points_hit", atomic.LoadInt64(&sc.hits))
	r.Set("race_reports_in_this_run", "written to replays/C05-race.* by the race detector (decided by C10)")
}

func c05history(r *core.Run, hi int) {
	if r.Violations() > 0 && hi >= 16 {
		return // a violation is on record: the remaining histories add nothing to the verdict
	}
	rg := r.Rand("h", hi)
	ti := Pristine("xterm-256color")
	ls, err := startScreen(ti, 400, 8, nil)
	if err != nil {
		r.Inconclusive(err.Error())
		return
	}
	s := ls.s
	// ---- build the stream ----
	nev := 100 + rg.IntN(r.Pick(400, 1900))
	var stream []byte
	var exps []*c05exp
	focus := false
	crg := r.Rand("hclip", hi) // its own stream: the other tokens of a history stay what they were
	for id := 0; id < nev; id++ {
		off := len(stream)
		add := func(e NEv) { exps = append(exps, &c05exp{ev: e, firstOff: off}) }
		if crg.IntN(14) == 0 {
			// the terminal's answer to an OSC 52 clipboard query, terminated by BEL or by ST
			data := fmt.Sprintf("clip-%d", id)
			term := "\a"
			if crg.IntN(2) == 0 {
				term = "\x1b\\"
			}
			stream = append(stream, []byte("\x1b]52;c;"+base64.StdEncoding.EncodeToString([]byte(data))+term)...)
			add(NEv{T: "clip", Data: data})
			continue
		}
		switch k := rg.IntN(10); {
		case k < 5:
			rn := rune(0x4e00 + id)
			stream = append(stream, []byte(string(rn))...)
			add(NEv{T: "key", Key: tcell.KeyRune, Rune: rn})
		case k < 7:
			x, y := id%400, id/400
			stream = append(stream, []byte(fmt.Sprintf("\x1b[<0;%d;%dM", x+1, y+1))...)
			add(NEv{T: "mouse", X: x, Y: y, Btn: tcell.Button1})
		case k < 8:
			// other report codes: middle/right, wheel, buttons 8-11, modifiers, motion
			codes := []int{1, 2, 64, 65, 66, 67, 128, 129, 130, 131, 4, 8, 16, 28, 32, 35, 192}
			c := codes[rg.IntN(len(codes))]
			x, y := id%400, id/400
			fin := "M"
			if rg.IntN(4) == 0 {
				fin = "m"
			}
			stream = append(stream, []byte(fmt.Sprintf("\x1b[<%d;%d;%d%s", c, x+1, y+1, fin))...)
			exps = append(exps, &c05exp{ev: NEv{T: "mouse", X: x, Y: y}, firstOff: off, loose: true, optional: c >= 128})
		case k < 9:
			rn := rune(0x4e00 + id)
			stream = append(stream, []byte("\x1b[200~"+string(rn)+"\x1b[201~")...)
			add(NEv{T: "paste", Flag: true})
			add(NEv{T: "key", Key: tcell.KeyRune, Rune: rn})
			add(NEv{T: "paste", Flag: false})
		default:
			focus = !focus
			if focus {
				stream = append(stream, []byte("\x1b[I")...)
			} else {
				stream = append(stream, []byte("\x1b[O")...)
			}
			add(NEv{T: "focus", Flag: focus})
		}
	}
	sentinel := rune(0x3042)
	// ---- actors ----
	var polled []c05poll
	pollMode := rg.IntN(4) // 0 eager 1 slow 2 absent-then-drain 3 bursty
	var feederDone, postersDone int32
	var hpViol atomic.Value
	pollDone := make(chan struct{})
	startPoll := make(chan struct{})
	go func() {
		defer close(pollDone)
		<-startPoll
		prg := rand.New(rand.NewPCG(uint64(hi), 77))
		for {
			switch pollMode {
			case 1:
				if prg.IntN(3) == 0 {
					time.Sleep(time.Duration(prg.IntN(300)) * time.Microsecond)
				}
			case 3:
				if prg.IntN(40) == 0 {
					time.Sleep(time.Duration(1+prg.IntN(4)) * time.Millisecond)
				}
			}
			if prg.IntN(4) == 0 && s.HasPendingEvent() {
				// single consumer: the next PollEvent must not block
				got := make(chan tcell.Event, 1)
				go func() { got <- s.PollEvent() }()
				select {
				case ev := <-got:
					if ev == nil {
						return
					}
					p := c05poll{ev: ev, ret: c05now()}
					c05when(&p)
					polled = append(polled, p)
					if k, ok := ev.(*tcell.EventKey); ok && k.Rune() == sentinel {
						return
					}
				case <-time.After(20 * time.Second):
					hpViol.Store("HasPendingEvent() returned true but the following PollEvent blocked for 20s with a single consumer")
					return
				}
				continue
			}
			ev := s.PollEvent()
			if ev == nil {
				return
			}
			p := c05poll{ev: ev, ret: c05now()}
			c05when(&p)
			polled = append(polled, p)
			if k, ok := ev.(*tcell.EventKey); ok && k.Rune() == sentinel {
				return
			}
		}
	}()
	if pollMode != 2 {
		close(startPoll)
	}
	// posters
	np := 1 + rg.IntN(4)
	type post struct {
		id        int64
		call, ret int64
		ok        bool
	}
	posts := make([][]post, np)
	var nilPostsOK int64
	var pwg sync.WaitGroup
	for p := 0; p < np; p++ {
		pwg.Add(1)
		go func(p int) {
			defer pwg.Done()
			prg := rand.New(rand.NewPCG(uint64(hi), uint64(100+p)))
			n := 20 + prg.IntN(150)
			for i := 0; i < n; i++ {
				id := int64(p)<<32 | int64(i)
				var ev tcell.Event = tcell.NewEventInterrupt(id)
				switch {
				case i%7 == 3:
					// an application-defined event type
					ev = &c05appEvent{id: id, t: time.Now()}
				case i%7 == 5:
					// an interrupt without payload: no id, counted
					ev = tcell.NewEventInterrupt(nil)
				}
				c := c05now()
				err := s.PostEvent(ev)
				if i%7 == 5 {
					if err == nil {
						atomic.AddInt64(&nilPostsOK, 1)
					}
					continue
				}
				posts[p] = append(posts[p], post{id: id, call: c, ret: c05now(), ok: err == nil})
				if prg.IntN(3) == 0 {
					runtime.Gosched()
				}
				if prg.IntN(20) == 0 {
					time.Sleep(time.Duration(prg.IntN(200)) * time.Microsecond)
				}
			}
		}(p)
	}
	// resize storm
	var stopResize int32
	var rwg sync.WaitGroup
	if rg.IntN(2) == 0 {
		rwg.Add(1)
		go func() {
			defer rwg.Done()
			n := 0
			for atomic.LoadInt32(&stopResize) == 0 {
				n++
				ls.tty.SetSize(400, 8+n%2) // the height toggles; ids only use rows < 8
				ls.tty.NotifyNow()
				time.Sleep(200 * time.Microsecond)
			}
		}()
	}
	// feeder
	chunkTimes := make([]int64, len(stream)+1)
	tokenStart := map[int]bool{}
	for _, e := range exps {
		tokenStart[e.firstOff] = true
	}
	var maxSplitGap int64 // longest pause of the feeder in the middle of a token
	// scheduling latency of this process during the history: a goroutine that only sleeps 2 ms at a
	// time measures by how much it oversleeps. When goroutines are held up for a time comparable
	// with the 50 ms escape timeout (16 histories run in parallel under the race detector), the
	// library's reader can be held up just the same between reading the rest of a sequence and
	// passing it on, and the timeout fires although the terminal sent the sequence in one go.
	var maxLag int64
	lagStop := make(chan struct{})
	defer close(lagStop)
	go func() {
		for {
			t0 := time.Now()
			select {
			case <-lagStop:
				return
			case <-time.After(2 * time.Millisecond):
			}
			if lag := int64(time.Since(t0)) - int64(2*time.Millisecond); lag > atomic.LoadInt64(&maxLag) {
				atomic.StoreInt64(&maxLag, lag)
			}
		}
	}()
	go func() {
		frg := rand.New(rand.NewPCG(uint64(hi), 9))
		off := 0
		lastRet := int64(0)
		for off < len(stream) {
			n := 1 + frg.IntN(100)
			if frg.IntN(5) == 0 {
				n = 1 + frg.IntN(4)
			}
			if off+n > len(stream) {
				n = len(stream) - off
			}
			t := c05now()
			if off > 0 && !tokenStart[off] && t-lastRet > atomic.LoadInt64(&maxSplitGap) {
				atomic.StoreInt64(&maxSplitGap, t-lastRet)
			}
			for k := off; k < off+n; k++ {
				chunkTimes[k] = t
			}
			ls.tty.Feed(stream[off : off+n])
			lastRet = c05now()
			off += n
		}
		atomic.StoreInt32(&feederDone, 1)
	}()
	if pollMode == 2 {
		// the application does not poll: wait (in scheduler steps) until the reader is parked
		for k := 0; k < 3000000 && atomic.LoadInt32(&feederDone) == 0; k++ {
			runtime.Gosched()
			if k > 20000 && atomic.LoadInt32(&ls.tty.Reading) == 0 {
				r.Count("histories_with_both_queues_full", 1)
				break
			}
		}
		// ... and stays away for longer than the escape timeout
		time.Sleep(80 * time.Millisecond)
		close(startPoll)
	}
	pwg.Wait()
	atomic.StoreInt32(&postersDone, 1)
	// wait for the feeder (it can only finish if the poller drains)
	// A watchdog that fires ends the history early: what WAS delivered is still judged (a
	// delivered prefix that differs from the expected stream is a violation whatever happens
	// later); only "the rest never came" stays inconclusive.
	watchdog := ""
	fdl := time.Now().Add(60 * time.Second)
	for atomic.LoadInt32(&feederDone) == 0 && watchdog == "" {
		time.Sleep(200 * time.Microsecond)
		if time.Now().After(fdl) {
			watchdog = "feeder watchdog"
		}
	}
	atomic.StoreInt32(&stopResize, 1)
	rwg.Wait()
	if watchdog == "" {
		ls.tty.Feed([]byte(string(sentinel)))
		select {
		case <-pollDone:
		case <-time.After(60 * time.Second):
			watchdog = "poller watchdog"
		}
	}
	ls.fini()
	if watchdog != "" {
		// Fini releases the poller (PollEvent returns nil); only then is its record read
		select {
		case <-pollDone:
		case <-time.After(30 * time.Second):
			r.Inconclusive(fmt.Sprintf("history %d: %s, and the poller did not come back after Fini", hi, watchdog))
			return
		}
	}
	if v := hpViol.Load(); v != nil {
		r.Violate("haspending-then-poll-blocks", v.(string), nil)
	}
	for i := range exps {
		exps[i].cause = chunkTimes[exps[i].firstOff]
	}
	// ---- offline checks ----
	key := fmt.Sprintf("h|%d", hi)
	if len(polled) >= 50 {
		r.Case(key)
	} else {
		r.Case("")
	}
	r.Count("events_delivered", int64(len(polled)))
	fail := func(sig, what string) {
		r.Violate(sig, fmt.Sprintf("history %d (poller mode %d, %d posters, %d input events): %s", hi, pollMode, np, len(exps), what), map[string]any{"history": hi})
	}
	// (1) input-derived subsequence
	ei := 0
	delivered := map[int64]int{}
	lastPer := map[int64]int64{}
	nilDelivered := int64(0)
	for pi, p := range polled {
		if p.whenP != nil {
			fail("when:panic:"+fmt.Sprintf("%T", p.ev), fmt.Sprintf("When() of a delivered %T panicked: %v", p.ev, p.whenP))
			return
		}
		switch e := p.ev.(type) {
		case *tcell.EventResize, *tcell.EventError:
			continue
		case *c05appEvent:
			delivered[e.id]++
			pp := e.id >> 32
			if last, ok := lastPer[pp]; ok && e.id <= last {
				fail("post:reordered", fmt.Sprintf("poster %d: event %d delivered after %d", pp, e.id&0xffffffff, last&0xffffffff))
				return
			}
			lastPer[pp] = e.id
			continue
		case *tcell.EventInterrupt:
			if e.Data() == nil {
				nilDelivered++
				continue
			}
			id, _ := e.Data().(int64)
			delivered[id]++
			pp := id >> 32
			if last, ok := lastPer[pp]; ok && id <= last {
				fail("post:reordered", fmt.Sprintf("poster %d: event %d delivered after %d", pp, id&0xffffffff, last&0xffffffff))
				return
			}
			lastPer[pp] = id
			continue
		}
		n := normEv(p.ev)
		if n.T == "key" && n.Rune == sentinel {
			continue
		}
		if ei >= len(exps) {
			fail("input:extra:"+n.T, fmt.Sprintf("delivery %d is %s but all %d input events had already been delivered (duplicate?)", pi, n, len(exps)))
			return
		}
		// extra event of the loose mouse token just matched
		if ei > 0 && exps[ei-1].loose && n.T == "mouse" && n.X == exps[ei-1].ev.X && n.Y == exps[ei-1].ev.Y {
			continue
		}
		for ei < len(exps) && exps[ei].optional && !(n.T == "mouse" && n.X == exps[ei].ev.X && n.Y == exps[ei].ev.Y) {
			ei++ // a report tcell is free not to decode
		}
		if ei >= len(exps) {
			fail("input:extra:"+n.T, fmt.Sprintf("delivery %d is %s but all %d input events had already been delivered (duplicate?)", pi, n, len(exps)))
			return
		}
		want := exps[ei]
		if want.loose && n.T == "mouse" && n.X == want.ev.X && n.Y == want.ev.Y {
			n = want.ev
		}
		if n != want.ev {
			kind := "changed"
			for j := ei + 1; j < len(exps) && j < ei+40; j++ {
				if exps[j].ev == n {
					kind = "lost-or-reordered"
				}
			}
			for j := max(0, ei-40); j < ei; j++ {
				if exps[j].ev == n {
					kind = "duplicated-or-reordered"
				}
			}
			if g := atomic.LoadInt64(&maxSplitGap); g > int64(20*time.Millisecond) {
				// the harness itself paused in the middle of a sequence for a time comparable
				// with the 50 ms escape timeout: the terminal "sent" it that way
				r.Inconclusive(fmt.Sprintf("history %d: feeder paused %dms inside a sequence", hi, g/int64(time.Millisecond)))
				return
			}
			if lag := atomic.LoadInt64(&maxLag); lag > int64(20*time.Millisecond) {
				r.Inconclusive(fmt.Sprintf("history %d: goroutines of this process were held up for up to %dms (machine load): escape-timeout decisions are not judged", hi, lag/int64(time.Millisecond)))
				return
			}
			fail("input:"+kind+":"+want.ev.T, fmt.Sprintf("input event %d should be %s, PollEvent delivered %s", ei, want.ev, n))
			return
		}
		if !p.when.IsZero() {
			w := int64(p.when.Sub(c05t0))
			if w < want.cause-int64(time.Millisecond) || w > p.ret+int64(time.Millisecond) {
				fail("when:out-of-range:"+n.T, fmt.Sprintf("input event %d %s: When() is %+dus relative to the arrival of its bytes and %+dus relative to its delivery", ei, n, (w-want.cause)/1000, (w-p.ret)/1000))
				return
			}
		} else {
			fail("when:zero:"+n.T, fmt.Sprintf("input event %d %s has a zero When()", ei, n))
			return
		}
		ei++
	}
	for ei < len(exps) && exps[ei].optional {
		ei++
	}
	if watchdog != "" {
		r.Inconclusive(fmt.Sprintf("history %d: %s (the %d input events delivered until then are the expected ones)", hi, watchdog, ei))
		return
	}
	if ei != len(exps) {
		fail("input:lost:"+exps[ei].ev.T, fmt.Sprintf("only %d of %d input events were delivered before the sentinel; first missing: %s", ei, len(exps), exps[ei].ev))
		return
	}
	// (2) posts
	if ok := atomic.LoadInt64(&nilPostsOK); ok != nilDelivered {
		fail("post:count:interrupt-without-payload", fmt.Sprintf("%d PostEvent(NewEventInterrupt(nil)) calls returned nil, %d such events were delivered", ok, nilDelivered))
		return
	}
	for p := range posts {
		for _, po := range posts[p] {
			n := delivered[po.id]
			switch {
			case po.ok && n == 0:
				fail("post:lost", fmt.Sprintf("poster %d event %d: PostEvent returned nil but the event was never delivered", p, po.id&0xffffffff))
				return
			case po.ok && n > 1:
				fail("post:duplicated", fmt.Sprintf("poster %d event %d delivered %d times", p, po.id&0xffffffff, n))
				return
			case !po.ok && n > 0:
				fail("post:delivered-despite-full", fmt.Sprintf("poster %d event %d: PostEvent returned ErrEventQFull but the event was delivered", p, po.id&0xffffffff))
				return
			}
		}
	}
	if hi < 2 {
		var tk []string
		for _, e := range exps[:min(6, len(exps))] {
			tk = append(tk, e.ev.String())
		}
		r.Sample(5, map[string]any{"kind": "history", "poller_mode": pollMode, "posters": np, "input_events": len(exps), "delivered": len(polled), "first_events": strings.Join(tk, " ")})
	}
}

func c05when(p *c05poll) {
	defer func() {
		if e := recover(); e != nil {
			p.whenP = e
		}
	}()
	p.when = p.ev.When()
	p.whenOK = true
}

// ---------------------------------------------------------------------------
// porcupine: Post / Poll / HasPending only

type qop struct {
	Kind string // post poll has
	Val  int64
}

type qout struct {
	OK  bool  // post: enqueued; has: result
	Val int64 // poll: value
}

var queueModel = porcupine.Model{
	Init: func() interface{} { return []int64(nil) },
	Step: func(state, input, output interface{}) (bool, interface{}) {
		q := state.([]int64)
		in, out := input.(qop), output.(qout)
		switch in.Kind {
		case "post":
			if !out.OK {
				return true, q // "full" is legal in any state: no capacity is promised
			}
			nq := append(append([]int64(nil), q...), in.Val)
			return true, nq
		case "poll":
			if len(q) == 0 || q[0] != out.Val {
				return false, q
			}
			return true, append([]int64(nil), q[1:]...)
		case "has":
			return out.OK == (len(q) > 0), q
		}
		return false, q
	},
	Equal: func(a, b interface{}) bool {
		x, y := a.([]int64), b.([]int64)
		if len(x) != len(y) {
			return false
		}
		for i := range x {
			if x[i] != y[i] {
				return false
			}
		}
		return true
	},
	DescribeOperation: func(input, output interface{}) string {
		return fmt.Sprintf("%v -> %v", input, output)
	},
}

func c05porcupine(r *core.Run, pi int) {
	rg := r.Rand("p", pi)
	ti := Pristine("xterm-256color")
	ls, err := startScreen(ti, 20, 5, nil)
	if err != nil {
		r.Inconclusive(err.Error())
		return
	}
	s := ls.s
	// remove the initial resize event
	for !s.HasPendingEvent() {
		runtime.Gosched()
	}
	s.PollEvent()
	var mu sync.Mutex
	var ops []porcupine.Operation
	rec := func(cl int, in qop, c int64, out qout) {
		mu.Lock()
		ops = append(ops, porcupine.Operation{ClientId: cl, Input: in, Call: c, Output: out, Return: c05now()})
		mu.Unlock()
	}
	nPosters := 3
	per := 4 + rg.IntN(10)
	var wg sync.WaitGroup
	var okPosts int64
	for p := 0; p < nPosters; p++ {
		wg.Add(1)
		go func(p int) {
			defer wg.Done()
			prg := rand.New(rand.NewPCG(uint64(pi), uint64(p)))
			for i := 0; i < per; i++ {
				id := int64(p+1)<<32 | int64(i)
				c := c05now()
				err := s.PostEvent(tcell.NewEventInterrupt(id))
				rec(p, qop{"post", id}, c, qout{OK: err == nil})
				if err == nil {
					atomic.AddInt64(&okPosts, 1)
				}
				for k := prg.IntN(4); k > 0; k-- {
					runtime.Gosched()
				}
			}
		}(p)
	}
	// the poller takes exactly as many events as were posted successfully (it learns the
	// number at the end; until then it polls only when HasPending says so)
	done := make(chan struct{})
	go func() {
		defer close(done)
		prg := rand.New(rand.NewPCG(uint64(pi), 99))
		taken := int64(0)
		postersFinished := make(chan struct{})
		go func() { wg.Wait(); close(postersFinished) }()
		for {
			c := c05now()
			has := s.HasPendingEvent()
			rec(3, qop{Kind: "has"}, c, qout{OK: has})
			if has {
				c = c05now()
				ev := s.PollEvent()
				if iv, ok := ev.(*tcell.EventInterrupt); ok {
					id, _ := iv.Data().(int64)
					rec(3, qop{Kind: "poll"}, c, qout{Val: id})
					taken++
				}
			} else {
				select {
				case <-postersFinished:
					if taken >= atomic.LoadInt64(&okPosts) {
						return
					}
				default:
				}
			}
			for k := prg.IntN(6); k > 0; k-- {
				runtime.Gosched()
			}
		}
	}()
	select {
	case <-done:
	case <-time.After(30 * time.Second):
		r.Inconclusive("porcupine history watchdog")
		return
	}
	ls.fini()
	if len(ops) > 90 {
		// keep the checker tractable: trim trailing has-ops
		sort.Slice(ops, func(i, j int) bool { return ops[i].Call < ops[j].Call })
	}
	res, info := porcupine.CheckOperationsVerbose(queueModel, ops, 30*time.Second)
	r.Case(fmt.Sprintf("p|%d", pi))
	r.Count("porcupine_operations", int64(len(ops)))
	switch res {
	case porcupine.Unknown:
		r.Inconclusive("porcupine timeout")
	case porcupine.Illegal:
		var ds []string
		sort.Slice(ops, func(i, j int) bool { return ops[i].Call < ops[j].Call })
		for _, o := range ops {
			ds = append(ds, fmt.Sprintf("c%d %v->%v [%d,%d]", o.ClientId, o.Input, o.Output, o.Call/1000, o.Return/1000))
		}
		_ = info
		r.Violate("not-linearizable:post-poll-haspending", fmt.Sprintf("history %d of PostEvent/PollEvent/HasPendingEvent is not linearizable against a FIFO queue: %s", pi, short(strings.Join(ds, "; "), 1500)), map[string]any{"ops": ds})
	}
	if pi < 1 {
		r.Sample(5, map[string]any{"kind": "porcupine history", "operations": len(ops), "posters": nPosters})
	}
}

// ---------------------------------------------------------------------------
// ChannelEvents

func c05channel(r *core.Run, ci int) {
	rg := r.Rand("c", ci)
	ti := Pristine("xterm-256color")
	ls, err := startScreen(ti, 20, 5, nil)
	if err != nil {
		r.Inconclusive(err.Error())
		return
	}
	s := ls.s
	ch := make(chan tcell.Event, rg.IntN(3))
	quit := make(chan struct{})
	fdone := make(chan struct{})
	go func() { s.ChannelEvents(ch, quit); close(fdone) }()
	n := 50 + rg.IntN(200)
	go func() {
		for i := 0; i < n; i++ {
			ls.tty.Feed([]byte(string(rune(0x4e00 + i))))
		}
	}()
	next := 0
	closedByQuit := ci%2 == 0
	deadline := time.After(60 * time.Second)
	for next < n {
		select {
		case ev, ok := <-ch:
			if !ok {
				r.Violate("channelevents:closed-early", fmt.Sprintf("the channel closed after %d of %d events", next, n), nil)
				return
			}
			if k, isKey := ev.(*tcell.EventKey); isKey {
				if k.Rune() != rune(0x4e00+next) {
					r.Violate("channelevents:order", fmt.Sprintf("event %d forwarded as %q", next, k.Rune()), nil)
					ls.fini()
					return
				}
				next++
			}
		case <-deadline:
			r.Inconclusive("ChannelEvents watchdog")
			return
		}
	}
	if closedByQuit {
		close(quit)
	} else {
		ls.fini()
	}
	select {
	case <-fdone:
	case <-time.After(30 * time.Second):
		r.Violate("channelevents:not-closed", fmt.Sprintf("ChannelEvents did not return after %s", map[bool]string{true: "quit", false: "Fini"}[closedByQuit]), nil)
		return
	}
	// the channel must be closed
	for {
		select {
		case _, ok := <-ch:
			if !ok {
				if closedByQuit {
					ls.fini()
				}
				r.Case(fmt.Sprintf("c|%d", ci))
				return
			}
		case <-time.After(10 * time.Second):
			r.Violate("channelevents:not-closed", "the channel was not closed", nil)
			return
		}
	}
}

// c05stall: the main loop is held up for longer than the escape timeout by a
// redraw on a slow terminal while the second half of a key sequence is read:
// the sequence must still come out as one key.
func c05stall(r *core.Run) {
	stallSplit(r, []byte("\x1b"), []byte("[A"), "key sequence ESC [A")
}

// stallSplit: an item split across two reads (first, second) that arrive promptly one after the
// other while the main loop is held up past the escape timeout by a resize redraw on a slow
// terminal; the result must be what the two parts give in one read. Rounds in which the harness
// did not manage to deliver the second read inside the window are discarded, not judged.
func stallSplit(r *core.Run, first, second []byte, label string) {
	rounds := r.Pick(16, 300)
	ti := Pristine("xterm-256color")
	var want []NEv
	if d, err := newDecoder(ti, "UTF-8", 20, 5); err == nil {
		want, _, _ = d.whole(append(append([]byte{}, first...), second...))
	}
	for k := 0; k < rounds; k++ {
		ls, err := startScreen(ti, 20, 5, nil)
		if err != nil {
			r.Inconclusive(err.Error())
			return
		}
		wait := ls.startPoll(0x1d)
		t1 := time.Now()
		mark := lagMark()
		ls.tty.Feed(first)
		for i := 0; i < 300; i++ {
			runtime.Gosched()
		}
		atomic.StoreInt64(&ls.tty.WriteDelayNS, int64(90*time.Millisecond))
		ls.tty.SetSize(21+k%2, 6)
		ls.tty.NotifyNow()
		stalled := false
		for i := 0; i < 200000 && !stalled; i++ {
			stalled = atomic.LoadInt32(&ls.tty.InDelay) > 0
			runtime.Gosched()
		}
		ls.tty.Feed(second)
		gap := time.Since(t1)
		atomic.StoreInt64(&ls.tty.WriteDelayNS, 0)
		ls.tty.Feed([]byte{0x1d})
		got, ok := wait()
		ls.judgeSentinel(r, ok, "stall scenario")
		ls.fini()
		switch {
		case !ok:
			r.Case("")
		case !stalled || gap > 40*time.Millisecond || lagged(mark):
			// the harness did not manage to deliver the second read inside the timeout window
			r.Count("stall_rounds_with_compromised_timing", 1)
			r.Case("")
		default:
			r.Case(fmt.Sprintf("stall|%s|%d", label, k))
			r.Count("stall_rounds", 1)
			if !evsEq(got, want) {
				r.Violate("input:changed:stalled-main-loop", fmt.Sprintf("%s: %q and %q read %v apart while the main loop was held up 90 ms by a redraw on a slow terminal: delivered %s, expected %s", label, first, second, gap, evsStr(got), evsStr(want)), nil)
			}
		}
	}
}

// c05pendingStall: "a true HasPendingEvent means the next PollEvent does not block",
// asked while the main loop is held up by a redraw on a slow terminal and input that
// has been read is still on its way. The verdict is structural: with a single
// consumer, PollEvent on a non-empty event queue never parks; a poller found parked in
// PollEvent right after HasPendingEvent said true has blocked.
func c05pendingStall(r *core.Run) {
	ti := Pristine("xterm-256color")
	chunksets := [][][]byte{
		{{0xff}, {0xfe}},                            // decodes to nothing
		{[]byte("\x1b["), []byte("1;")},             // head of a sequence, still incomplete
		{[]byte("a"), []byte("b")},                  // events, but not yet
		{[]byte("\x1b]52;c;!\x07"), []byte("\xc3")}, // rejected clipboard reply, head of a rune
		{[]byte("\x1b[<0;"), []byte("5;")},
	}
	rounds := r.Pick(10, 200)
	for k := 0; k < rounds; k++ {
		cs := chunksets[k%len(chunksets)]
		ls, err := startScreen(ti, 20, 5, nil)
		if err != nil {
			r.Inconclusive(err.Error())
			return
		}
		s := ls.s
		for s.HasPendingEvent() {
			s.PollEvent()
		}
		s.SetContent(1, 1, 'x', nil, tcell.StyleDefault)
		atomic.StoreInt64(&ls.tty.WriteDelayNS, int64(400*time.Millisecond))
		shown := make(chan struct{})
		go func() { ls.tty.BeginApp(); s.Show(); ls.tty.EndApp(); close(shown) }()
		stalled := false
		for i := 0; i < 400000 && !stalled; i++ {
			stalled = atomic.LoadInt32(&ls.tty.InDelay) > 0
			runtime.Gosched()
		}
		fed := make(chan struct{})
		go func() {
			for _, c := range cs {
				ls.tty.Feed(c)
			}
			close(fed)
		}()
		// ask repeatedly while the redraw is stalled
		asked, sawTrue, parked := 0, false, false
		var polled chan tcell.Event
		for i := 0; i < 3000 && atomic.LoadInt32(&ls.tty.InDelay) > 0; i++ {
			asked++
			if s.HasPendingEvent() {
				sawTrue = true
				polled = make(chan tcell.Event, 1)
				var gid atomic.Int64
				go func() { gid.Store(int64(curGoid())); polled <- s.PollEvent() }()
				for j := 0; j < 200 && !parked && len(polled) == 0; j++ {
					runtime.Gosched()
					parked = gid.Load() != 0 && goroutineParkedIn("(*baseScreen).PollEvent", gid.Load())
				}
				break
			}
			runtime.Gosched()
		}
		atomic.StoreInt64(&ls.tty.WriteDelayNS, 0)
		<-shown
		ls.tty.Feed([]byte{0x18, 0x18}) // CAN aborts a pending sequence in every parser state
		ls.tty.Feed([]byte{0x1d})
		<-fed
		if polled != nil {
			select {
			case <-polled:
			case <-time.After(20 * time.Second):
				r.Inconclusive("pending-stall: PollEvent never returned after the sentinel")
			}
		}
		ls.fini()
		r.Case(fmt.Sprintf("pendingstall|%d", k))
		switch {
		case !stalled:
			r.Count("pending_stall_rounds_without_stall", 1)
		default:
			r.Count("pending_stall_rounds", 1)
			r.Count("pending_stall_haspending_calls", int64(asked))
			if sawTrue && parked {
				r.Violate("haspending:true-but-poll-blocks:stalled-main-loop", fmt.Sprintf("input chunks %q arrived while the main loop was held up by a redraw on a slow terminal and the event queue was empty: HasPendingEvent() returned true and the PollEvent that followed parked (single consumer)", cs), nil)
			}
		}
	}
}

// goroutineParkedIn reports whether the given goroutine is parked (select / chan receive)
// with the given function on its stack.
func goroutineParkedIn(fn string, goid int64) bool {
	buf := make([]byte, 1<<20)
	buf = buf[:runtime.Stack(buf, true)]
	for _, g := range strings.Split(string(buf), "\n\n") {
		if !strings.Contains(g, fn) || !strings.HasPrefix(g, fmt.Sprintf("goroutine %d [", goid)) {
			continue
		}
		hdr := g
		if i := strings.Index(g, "\n"); i > 0 {
			hdr = g[:i]
		}
		if strings.Contains(hdr, "[select") || strings.Contains(hdr, "[chan receive") {
			return true
		}
	}
	return false
}

// c05escResize: a lone ESC is input like any other: it is delivered (as Esc, once the escape
// timeout has passed) also when a resize notification is handled in the meantime, and the
// key typed next is delivered on its own. Bounded progress: the verdict on "never delivered"
// is the structural one (every byte read, every tcell goroutine parked in two dumps).
func c05escResize(r *core.Run) {
	ti := Pristine("xterm-256color")
	rounds := r.Pick(12, 200)
	for k := 0; k < rounds; k++ {
		ls, err := startScreen(ti, 30, 6, nil)
		if err != nil {
			r.Inconclusive(err.Error())
			return
		}
		evc := make(chan NEv, 64)
		go func() {
			for {
				ev := ls.s.PollEvent()
				if ev == nil {
					close(evc)
					return
				}
				if _, isResize := ev.(*tcell.EventResize); !isResize {
					evc <- normEv(ev)
				}
			}
		}()
		next := func() (NEv, string) {
			select {
			case e, ok := <-evc:
				if !ok {
					return NEv{}, "closed"
				}
				return e, ""
			case <-time.After(15 * time.Second):
				if lost, w := ls.sentinelLost(); lost {
					return NEv{}, "idle: " + w
				}
				return NEv{}, "watchdog"
			}
		}
		pre := []string{"", "a", "\x1b[A"}[k%3]
		ls.tty.Feed([]byte(pre + "\x1b"))
		// the resize notification arrives while the ESC is pending; every third round keeps the size
		nres := 1 + k%3
		for i := 0; i < nres; i++ {
			if k%3 != 2 {
				ls.tty.SetSize(30+(k+i)%2, 6+i%2)
			}
			ls.tty.NotifyNow()
			for j := 0; j < 50*(k%4); j++ {
				runtime.Gosched()
			}
		}
		var got []NEv
		want := len(normEvsOfString(pre)) + 1
		verdict := ""
		for len(got) < want && verdict == "" {
			e, why := next()
			switch {
			case why == "":
				got = append(got, e)
			case strings.HasPrefix(why, "idle"):
				verdict = fmt.Sprintf("the lone ESC was never delivered although the library is %s (delivered so far: %s)", why, evsStr(got))
			default:
				verdict = "INCONCLUSIVE"
			}
		}
		if verdict == "" {
			if last := got[len(got)-1]; !(last.T == "key" && last.Key == tcell.KeyEsc && last.Mod == 0) {
				verdict = fmt.Sprintf("expected Esc after the escape timeout, delivered %s", evsStr(got))
			}
		}
		if verdict == "" {
			ls.tty.Feed([]byte("x"))
			e, why := next()
			switch {
			case why == "" && !(e.T == "key" && e.Key == tcell.KeyRune && e.Rune == 'x' && e.Mod == 0):
				verdict = fmt.Sprintf("the key typed after the delivered Esc arrived as %s, expected the plain rune x", e)
			case strings.HasPrefix(why, "idle"):
				verdict = "the key typed after the Esc was never delivered (" + why + ")"
			case why != "":
				verdict = "INCONCLUSIVE"
			}
		}
		ls.fini()
		r.Case(fmt.Sprintf("escresize|%d", k))
		r.Count("esc_resize_rounds", 1)
		if verdict == "INCONCLUSIVE" {
			r.Inconclusive("esc+resize round: watchdog")
		} else if verdict != "" {
			r.Violate("input:lone-esc+resize", fmt.Sprintf("input %q, then %d resize notification(s) while the ESC is pending, then silence: %s", pre+"\x1b", nres, verdict), nil)
			return
		}
	}
}

// c05focusTail: a focus report that ends the input (the terminal then stays silent for longer
// than the escape timeout) is delivered as the focus event, once, on every terminal family
// that reports focus - also where the report is the beginning of a key sequence (rxvt:
// ESC [ O a is Ctrl-Up) - and the input that follows later is delivered on its own. The
// expected stream does not depend on when the second part arrives (x and I begin no key
// after ESC [ O), so the pause only gives a wrong timeout path the chance to show.
func c05focusTail(r *core.Run) {
	var tis []*terminfo.Terminfo
	for _, ti := range ECMAEntries() {
		if ti.Mouse != "" {
			tis = append(tis, ti)
		}
	}
	n := 0
	for k, ti := range tis {
		if r.Tier != "thorough" && !(strings.HasPrefix(ti.Name, "rxvt") || k%4 == int(r.Seed%4)) {
			continue
		}
		for v := 0; v < 2; v++ {
			ls, err := startScreen(ti, 30, 6, nil)
			if err != nil {
				r.Inconclusive(err.Error())
				return
			}
			ls.tty.BeginApp()
			ls.s.EnableFocus()
			ls.tty.EndApp()
			first := []string{"a\x1b[O", "a\x1b[I\x1b[O"}[v]
			wantEvs := []NEv{{T: "key", Key: tcell.KeyRune, Rune: 'a'}}
			if v == 1 {
				wantEvs = append(wantEvs, NEv{T: "focus", Flag: true})
			}
			wantEvs = append(wantEvs, NEv{T: "focus", Flag: false}, NEv{T: "key", Key: tcell.KeyRune, Rune: 'x'}, NEv{T: "focus", Flag: true})
			wait := ls.startPoll(0x1d)
			ls.tty.Feed([]byte(first))
			time.Sleep(130 * time.Millisecond)
			ls.tty.Feed([]byte("x\x1b[I"))
			ls.tty.Feed([]byte{0x1d})
			got, ok := wait()
			ls.judgeSentinel(r, ok, "focus report at the end of the input")
			ls.fini()
			r.Case(fmt.Sprintf("focustail|%s|%d", ti.Name, v))
			if !ok {
				continue
			}
			n++
			if !evsEq(got, wantEvs) {
				r.Violate("input:focus-report-then-silence", fmt.Sprintf("%s: the terminal sends %q, stays silent for 130ms, then sends %q: delivered %s, expected %s", ti.Name, first, "x\x1b[I", evsStr(got), evsStr(wantEvs)), nil)
				return
			}
		}
	}
	r.Count("focus_tail_rounds", int64(n))
}

// normEvsOfString: how many events the plain prefix of the scenario produces (a rune or one key).
func normEvsOfString(s string) []int {
	switch s {
	case "":
		return nil
	default:
		return []int{1}
	}
}

// c05preInit: "every PostEvent that returns nil is delivered exactly once ... reports
// ErrEventQFull exactly when it did not enqueue", also for events posted between the
// construction of the screen and Init (a worker goroutine started early).
func c05preInit(r *core.Run) {
	ti := Pristine("xterm-256color")
	for k := 0; k < r.Pick(4, 40); k++ {
		tic := CopyTI(ti)
		tic.PadChar = ""
		ft := faketty.New(20, 5)
		s, err := tcell.NewTerminfoScreenFromTtyTerminfo(ft, tic)
		if err != nil {
			r.Inconclusive(err.Error())
			return
		}
		accepted := map[int64]bool{}
		n := 1 + k%12
		for i := 0; i < n; i++ {
			id := int64(1000 + i)
			if s.PostEvent(tcell.NewEventInterrupt(id)) == nil {
				accepted[id] = true
			}
		}
		ft.BeginApp()
		err = s.Init()
		ft.EndApp()
		if err != nil {
			r.Inconclusive("Init: " + err.Error())
			return
		}
		ls := &liveScreen{s: s, tty: ft, ti: tic}
		got := map[int64]int{}
		evc := make(chan tcell.Event, 64)
		go func() {
			for {
				ev := s.PollEvent()
				evc <- ev
				if ev == nil {
					return
				}
			}
		}()
		ft.Feed([]byte{0x1d})
		ok := false
		deadline := time.After(20 * time.Second)
	loop:
		for {
			select {
			case ev := <-evc:
				switch e := ev.(type) {
				case nil:
					break loop
				case *tcell.EventInterrupt:
					if id, isID := e.Data().(int64); isID {
						got[id]++
					}
				case *tcell.EventKey:
					if e.Key() == tcell.KeyCtrlRightSq {
						ok = true
						break loop
					}
				}
			case <-deadline:
				break loop
			}
		}
		ls.judgeSentinel(r, ok, "events posted before Init")
		ls.fini()
		r.Case(fmt.Sprintf("preinit|%d", k))
		if !ok {
			continue
		}
		for id := range accepted {
			if got[id] != 1 {
				r.Violate("post:lost:before-init", fmt.Sprintf("PostEvent of event %d between the construction of the screen and Init returned nil, but the event was delivered %d times after Init (%d posted, %d accepted)", id, got[id], n, len(accepted)), nil)
				return
			}
		}
		for id, c := range got {
			if !accepted[id] {
				r.Violate("post:delivered-despite-full:before-init", fmt.Sprintf("PostEvent of event %d before Init returned an error but the event was delivered %d times", id, c), nil)
				return
			}
		}
	}
}

// c05acrossSuspend: the event stream belongs to the screen, not to one engagement: a
// PollEvent blocked during Suspend/Resume keeps waiting (nil only after Fini), a
// ChannelEvents channel stays open, and keys typed after Resume reach both.
func c05acrossSuspend(r *core.Run) {
	ti := Pristine("xterm-256color")
	for k := 0; k < r.Pick(6, 60); k++ {
		ls, err := startScreen(ti, 20, 5, nil)
		if err != nil {
			r.Inconclusive(err.Error())
			return
		}
		s := ls.s
		useChan := k%2 == 1
		evc := make(chan tcell.Event, 64)
		quit := make(chan struct{})
		if useChan {
			go s.ChannelEvents(evc, quit)
		} else {
			go func() {
				for {
					ev := s.PollEvent()
					evc <- ev
					if ev == nil {
						return
					}
				}
			}()
		}
		// let the consumer block on the empty queue
		for s.HasPendingEvent() {
			runtime.Gosched()
		}
		for i := 0; i < 200; i++ {
			runtime.Gosched()
		}
		cycles := 1 + k%3
		verdict := ""
		for c := 0; c < cycles && verdict == ""; c++ {
			ls.tty.BeginApp()
			_ = s.Suspend()
			_ = s.Resume()
			ls.tty.EndApp()
			ls.tty.Feed([]byte("q"))
			deadline := time.After(20 * time.Second)
			seen := false
			for !seen && verdict == "" {
				select {
				case ev, open := <-evc:
					switch {
					case !open:
						verdict = fmt.Sprintf("the ChannelEvents channel was closed by Suspend/Resume cycle %d although neither quit was closed nor Fini called", c+1)
					case ev == nil:
						verdict = fmt.Sprintf("PollEvent returned nil during Suspend/Resume cycle %d although the screen is not finished", c+1)
					default:
						if kev, isKey := ev.(*tcell.EventKey); isKey && kev.Rune() == 'q' {
							seen = true
						}
					}
				case <-deadline:
					if lost, w := ls.sentinelLost(); lost {
						verdict = fmt.Sprintf("a key typed after Resume (cycle %d) never reached the consumer; the library is idle (%s)", c+1, w)
					} else {
						verdict = "INCONCLUSIVE"
					}
				}
			}
		}
		close(quit)
		ls.fini()
		r.Case(fmt.Sprintf("acrosssuspend|%d", k))
		r.Count("across_suspend_rounds", 1)
		if verdict == "INCONCLUSIVE" {
			r.Inconclusive("across-suspend round: watchdog")
		} else if verdict != "" {
			how := "PollEvent loop"
			if useChan {
				how = "ChannelEvents"
			}
			r.Violate("events:engagement-bound", fmt.Sprintf("consumer = %s: %s", how, verdict), nil)
			return
		}
	}
}
