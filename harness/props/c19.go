package props

import (
	"bytes"
	"encoding/json"
	"fmt"
	"os"
	"os/exec"
	"path/filepath"
	"strings"
	"time"

	"verif/core"
)

func init() { register("C19", C19) }

func C19(r *core.Run) {
	r.Rule = "the harness program cmd/wasmchk is compiled with GOOS=js GOARCH=wasm against /repo (compile failure of the tcell package = violation) and run under Node with a recording stand-in for webfiles/tcell.js installed through eval. (1) lifecycle: every sequence over {Suspend, Resume, SetSize, Fini} up to length 4 (780 with SetSize to a new and to the current size), each call on its own goroutine, followed by a Size() probe; js/wasm is single-threaded, so a call or probe not finished after 2000 scheduler yields is blocked for good. (2) callbacks: every name of WebKeyNames plus printable keys x 16 modifier combinations; onMouseClick/onMouseMove x which 0..3 x 8 modifier sets x 9 mouse-flag settings; paste and focus enabled/disabled. (3) seeded draw histories with the shared shadow model: after each Show/Sync the grid reconstructed from the drawCell calls (text incl. combining, 24-bit fg/bg with the xterm-like 16-colour palette, attribute bits, underline style/colour) is compared, and the set of drawCell targets per Show is held against the changed-cell rule. distinct by construction (sequences, callback cases) / per history."
	r.Assumptions = []string{"the real tcell.js DOM code is not executed (no DOM under Node): the statement is about the calls tcell makes into JavaScript", "a wide rune in the last column may be drawn as itself or as a blank (the statement does not say)", "mouse expectations are limited to the unambiguous cases (nothing when disabled; pure motion only with MouseMotionEvents; clicks with MouseButtonEvents; drags with drag or motion, not with button-only)"}
	hdir := filepath.Join(core.VerifDir(), "harness")
	out := filepath.Join(core.VerifDir(), "bin", "wasmchk.wasm")
	_ = os.MkdirAll(filepath.Dir(out), 0o755)
	args := []string{"build"}
	if mf := os.Getenv("VERIF_MODFLAG"); mf != "" {
		args = append(args, mf)
	}
	args = append(args, "-tags", "verif", "-o", out, "./cmd/wasmchk")
	build := exec.Command("go", args...)
	build.Dir = hdir
	build.Env = append(os.Environ(), "GOOS=js", "GOARCH=wasm")
	t0 := time.Now()
	bo, err := build.CombinedOutput()
	r.Set("wasm_build_seconds", time.Since(t0).Seconds())
	if err != nil {
		msg := string(bo)
		if strings.Contains(msg, "gdamore/tcell") || strings.Contains(msg, "/repo/") {
			first := msg
			if i := strings.Index(msg, "\n"); i > 0 && len(msg) > 600 {
				first = msg[:600]
			}
			r.CaseN(1, 2)
			r.Violate("build:js-wasm", "GOOS=js GOARCH=wasm go build fails in the tcell package: "+strings.TrimSpace(first), map[string]any{"output": msg})
			return
		}
		r.Inconclusive("harness wasm program does not build: " + msg)
		r.MinDistinct = 1 << 60
		return
	}
	goroot, _ := exec.Command("go", "env", "GOROOT").Output()
	wexec := filepath.Join(strings.TrimSpace(string(goroot)), "misc", "wasm", "wasm_exec_node.js")
	if _, err := os.Stat(wexec); err != nil {
		wexec = filepath.Join(strings.TrimSpace(string(goroot)), "lib", "wasm", "wasm_exec_node.js")
	}
	type report struct {
		Evaluations int64            `json:"evaluations"`
		Distinct    int64            `json:"distinct"`
		Counters    map[string]int64 `json:"counters"`
		Samples     []any            `json:"samples"`
		Violations  []struct {
			Sig  string `json:"sig"`
			What string `json:"what"`
		} `json:"violations"`
	}
	nparts := r.Pick(4, 16)
	reps := make([]*report, nparts)
	crash := make([]string, nparts)
	incon := make([]string, nparts)
	core.ParallelW(nparts, 8, func(part int) {
		run := exec.Command("node", wexec, out, r.Tier, fmt.Sprint(r.Seed), fmt.Sprint(part), fmt.Sprint(nparts))
		var stdout, stderr bytes.Buffer
		run.Stdout, run.Stderr = &stdout, &stderr
		done := make(chan error, 1)
		if err := run.Start(); err != nil {
			incon[part] = "cannot start node: " + err.Error()
			return
		}
		go func() { done <- run.Wait() }()
		var err error
		wd := 40 * time.Minute
		if r.Quick() {
			wd = 6 * time.Minute
		}
		select {
		case err = <-done:
		case <-time.After(wd):
			// spinning (CPU time keeps growing, no output) or merely slow?
			c1 := procCPUTicks(run.Process.Pid)
			time.Sleep(2 * time.Second)
			c2 := procCPUTicks(run.Process.Pid)
			_ = run.Process.Kill()
			last := ""
			for _, line := range strings.Split(stdout.String(), "\n") {
				if strings.HasPrefix(line, "WASMCHK-STEP ") {
					last = strings.TrimPrefix(line, "WASMCHK-STEP ")
				}
			}
			if c2-c1 >= 150 && last != "" && !strings.Contains(stdout.String(), "WASMCHK-REPORT") {
				// (100 ticks per second: the process burned >= 1.5 s of CPU in 2 s without finishing
				// a call that normally takes microseconds; js/wasm cannot be preempted)
				crash[part] = fmt.Sprintf("the program was still inside the lifecycle call announced last after %v, burning CPU without yielding: the last call of the sequence %s never returns (spins)", wd, last)
				return
			}
			incon[part] = fmt.Sprintf("wasm program watchdog (%v)", wd)
			return
		}
		for _, line := range strings.Split(stdout.String(), "\n") {
			if strings.HasPrefix(line, "WASMCHK-REPORT ") {
				var rp report
				if e := json.Unmarshal([]byte(strings.TrimPrefix(line, "WASMCHK-REPORT ")), &rp); e == nil {
					reps[part] = &rp
				}
			}
		}
		if reps[part] == nil {
			all := stdout.String() + stderr.String()
			if strings.Contains(all, "out of memory") {
				incon[part] = "the wasm program ran out of memory: " + short(strings.TrimSpace(all), 300)
			} else if strings.Contains(all, "all goroutines are asleep") || strings.Contains(all, "panic:") || strings.Contains(all, "fatal error:") {
				crash[part] = all
			} else {
				incon[part] = fmt.Sprintf("no report from the wasm program (err=%v): %s", err, short(all, 800))
			}
		}
	})
	var rep report
	rep.Counters = map[string]int64{}
	for part := 0; part < nparts; part++ {
		if crash[part] != "" {
			r.CaseN(1, 2)
			if strings.HasPrefix(crash[part], "the program was still inside") {
				r.Violate("lifecycle:call-spins", crash[part], map[string]any{"part": part})
				return
			}
			r.Violate("wasm:crash", "the wasm program died: "+short(strings.TrimSpace(crash[part]), 1500), map[string]any{"output": crash[part], "part": part})
			return
		}
		if incon[part] != "" {
			r.Inconclusive(incon[part])
			r.MinDistinct = 1 << 60
			return
		}
		rp := reps[part]
		rep.Evaluations += rp.Evaluations
		rep.Distinct += rp.Distinct
		for k, v := range rp.Counters {
			rep.Counters[k] += v
		}
		rep.Samples = append(rep.Samples, rp.Samples...)
		rep.Violations = append(rep.Violations, rp.Violations...)
	}
	r.Set("wasm_processes", nparts)
	r.CaseN(rep.Evaluations, rep.Distinct)
	for k, v := range rep.Counters {
		r.Count(k, v)
	}
	for _, s := range rep.Samples {
		r.Sample(6, s)
	}
	for _, v := range rep.Violations {
		r.Violate(v.Sig, v.What, map[string]any{"what": v.What})
	}
}

// procCPUTicks: utime+stime of a process in clock ticks (Linux /proc), 0 if unavailable.
func procCPUTicks(pid int) int64 {
	b, err := os.ReadFile(fmt.Sprintf("/proc/%d/stat", pid))
	if err != nil {
		return 0
	}
	s := string(b)
	if i := strings.LastIndex(s, ")"); i >= 0 {
		f := strings.Fields(s[i+1:])
		if len(f) > 13 {
			var u, st int64
			fmt.Sscan(f[11], &u)
			fmt.Sscan(f[12], &st)
			return u + st
		}
	}
	return 0
}
