package props

import (
	"fmt"
	"github.com/gdamore/tcell/v2/terminfo/dynamic"
	"os"
	"os/exec"
	"sort"
	"strings"

	"github.com/gdamore/tcell/v2"
	"github.com/gdamore/tcell/v2/terminfo"
	xenc "golang.org/x/text/encoding"

	"verif/core"
	"verif/faketty"
	"verif/shadow"
	"verif/vt"
)

func init() {
	register("C17", C17)
	// glyph names of terminfo(5) acsc -> the runes tcell's API names for them
	vt.AcsNames = map[byte]rune{
		'+': tcell.RuneRArrow, ',': tcell.RuneLArrow, '-': tcell.RuneUArrow, '.': tcell.RuneDArrow, '0': tcell.RuneBlock,
		'`': tcell.RuneDiamond, 'a': tcell.RuneCkBoard, 'f': tcell.RuneDegree, 'g': tcell.RunePlMinus, 'h': tcell.RuneBoard,
		'i': tcell.RuneLantern, 'j': tcell.RuneLRCorner, 'k': tcell.RuneURCorner, 'l': tcell.RuneULCorner, 'm': tcell.RuneLLCorner,
		'n': tcell.RunePlus, 'o': tcell.RuneS1, 'p': tcell.RuneS3, 'q': tcell.RuneHLine, 'r': tcell.RuneS7, 's': tcell.RuneS9,
		't': tcell.RuneLTee, 'u': tcell.RuneRTee, 'v': tcell.RuneBTee, 'w': tcell.RuneTTee, 'x': tcell.RuneVLine,
		'y': tcell.RuneLEqual, 'z': tcell.RuneGEqual, '{': tcell.RunePi, '|': tcell.RuneNEqual, '}': tcell.RuneSterling, '~': tcell.RuneBullet,
	}
}

// asciiDecoder: US-ASCII sessions must never send a byte >= 0x80.
func asciiDecoder(b []byte) (rune, int, bool) { return 0, 0, false }

type c17sess struct {
	cs    string
	lc    string
	enc   xenc.Encoding // nil for US-ASCII
	dec   vt.Decoder
	entry string
	ti    *terminfo.Terminfo // a description supplied by the caller instead of a built-in entry
	acsc  string             // the acsc string the reference terminal goes by, when it is not ti.AltChars
}

// encodable reports whether the charset can represent r, and what the
// terminal will decode those bytes to.
func (s *c17sess) encodable(r rune) (rune, bool) {
	if r < 0x80 {
		return r, r >= 0x20 && r != 0x7f
	}
	if s.enc == nil {
		return 0, false
	}
	e := s.enc.NewEncoder()
	out := make([]byte, 8)
	n, _, err := e.Transform(out, []byte(string(r)), true)
	if err != nil || n == 0 || out[0] == 0x1a {
		return 0, false
	}
	d, k, _ := s.dec(out[:n])
	if k != n {
		return 0, false
	}
	return d, true
}

func C17(r *core.Run) {
	// the same check under East Asian ambiguous width (read once when the package is
	// initialised, hence a child process): many runes, the ACS ones included, become two columns wide
	defer r.ChildRun("east-asian-width", "RUNEWIDTH_EASTASIAN=1")
	r.Rule = "real terminfo screens with LC_ALL selecting each stateless legacy charset (22) plus US-ASCII, on entries with an ACS map (xterm, vt220, linux, ansi) and without (sun, eterm); runes (quick: the glyph/fallback tables, Latin-1, box drawing, a stride of the BMP, CJK/emoji samples; thorough: every BMP rune of width>=1 plus samples above) are drawn as narrow, wide and base+combining content, 20 per screen row; the reference terminal decodes the output with its own decoder of the charset and the entry's acsc map, and each cell must show, in priority order: the rune itself, its ACS glyph, the registered fallback string, or '?', always filling the cell's width. CanDisplay(r,false/true) must agree. Histories of RegisterRuneFallback/UnregisterRuneFallback followed by a redraw. distinct = distinct (charset, entry, rune)."
	r.Assumptions = []string{"x/text codecs define each charset; a rune counts as representable when the harness's encoder produces bytes that decode back", "A1-A4 of C01", "registered fallbacks are as wide as the cell or one column (padding demanded)"}
	var sessions []c17sess
	entries := []string{"xterm", "vt220", "linux", "ansi", "sun", "eterm"}
	for i, cs := range legacyCharsets {
		for j, e := range entries {
			if false && r.Quick() && (i+j)%3 != 0 {
				continue
			}
			sessions = append(sessions, c17sess{cs: cs.name, lc: "xx_YY." + cs.name, enc: cs.enc, dec: xtextDecoder(cs.enc), entry: e})
		}
	}
	for _, e := range entries {
		sessions = append(sessions, c17sess{cs: "US-ASCII", lc: "C", dec: asciiDecoder, entry: e})
	}
	// a description supplied by the caller with an acsc map but no smacs/rmacs (PC consoles such as
	// cons25: the glyph bytes are sent as they are)
	if pc := Pristine("ansi"); pc != nil {
		pc.Name, pc.Aliases = "pc-console-no-smacs", nil
		pc.EnterAcs, pc.ExitAcs, pc.EnableAcs = "", "", ""
		pc.AltChars = "l\xdam\xc0k\xbfj\xd9u\xb4t\xc3v\xc1w\xc2q\xc4x\xb3n\xc5a\xb0f\xf8g\xf1~\xf9h\xb1"
		sessions = append(sessions, c17sess{cs: "US-ASCII", lc: "C", dec: asciiDecoder, entry: "pc-console-no-smacs", ti: pc})
		// (only with the C locale: the glyph bytes are codes >= 0x80 of that terminal's single
		// character set, which cannot at the same time be ISO 8859-x)
	}
	// a description that is not compiled in, loaded through infocmp (terminfo/dynamic): the PC
	// console entry cons25 where the machine has it. The reference terminal goes by the harness's
	// own reading of the infocmp output, not by what the loader made of it.
	if dyn, ok := c17dynamic(r); ok {
		sessions = append(sessions, dyn)
	}
	// rune set
	var runes []rune
	add := func(x rune) { runes = append(runes, x) }
	for _, x := range vt.AcsNames {
		add(x)
	}
	for x := range tcell.RuneFallbacks {
		add(x)
	}
	for x := rune(0xa0); x < 0x180; x++ {
		if shadow.Width(x) >= 1 {
			add(x)
		}
	}
	for x := rune(0x2500); x < 0x25a0; x++ {
		add(x)
	}
	for _, x := range "世界日本語あア한😀ЖλΩ€‰→←" {
		add(x)
	}
	stride := rune(23)
	if !r.Quick() {
		stride = 1
	}
	for x := rune(0x180); x < 0x10000; x += stride {
		if x >= 0xd800 && x < 0xe000 {
			continue
		}
		if shadow.Width(x) >= 1 {
			add(x)
		}
	}
	for x := rune(0x1f300); x < 0x1f700; x += 37 {
		add(x)
	}
	r.Set("runes_per_session", len(runes))
	r.Set("sessions", len(sessions))
	defer os.Setenv("LC_ALL", "C.UTF-8")
	// sessions with the same locale run in parallel; locales sequentially
	byLC := map[string][]c17sess{}
	var order []string
	for _, s := range sessions {
		if _, ok := byLC[s.lc]; !ok {
			order = append(order, s.lc)
		}
		byLC[s.lc] = append(byLC[s.lc], s)
	}
	// "the locale selects": the same locale expressed in the four ways POSIX allows
	// (an empty variable counts as unset; LC_ALL before LC_CTYPE before LANG), and the
	// alternate screen switched off for half of the groups (TCELL_ALTSCREEN=disable)
	defer func() {
		for _, v := range []string{"LC_CTYPE", "LANG", "TCELL_ALTSCREEN"} {
			os.Unsetenv(v)
		}
	}()
	forms := map[string]int64{}
	for li, lc := range order {
		form := (li + int(r.Seed)) % 4
		for _, v := range []string{"LC_ALL", "LC_CTYPE", "LANG", "TCELL_ALTSCREEN"} {
			os.Unsetenv(v)
		}
		var fname string
		switch form {
		case 0:
			fname = "LC_ALL"
			os.Setenv("LC_ALL", lc)
			os.Setenv("LANG", "en_US.UTF-8")
		case 1:
			fname = "LC_ALL empty, LC_CTYPE"
			os.Setenv("LC_ALL", "")
			os.Setenv("LC_CTYPE", lc)
			os.Setenv("LANG", "en_US.UTF-8")
		case 2:
			fname = "LC_ALL unset, LC_CTYPE empty, LANG"
			os.Setenv("LC_CTYPE", "")
			os.Setenv("LANG", lc)
		case 3:
			fname = "LC_CTYPE over LANG"
			os.Setenv("LC_CTYPE", lc)
			os.Setenv("LANG", "C.UTF-8")
		}
		if (li/2+int(r.Seed))%2 == 1 {
			os.Setenv("TCELL_ALTSCREEN", "disable")
			fname += ", TCELL_ALTSCREEN=disable"
		}
		forms[fname]++
		group := byLC[lc]
		core.Parallel(len(group), func(gi int) {
			c17session(r, group[gi], runes)
		})
	}
	r.Set("locale_forms_used", forms)
	// UTF-8: everything is displayed as itself, nothing via ACS
	for _, v := range []string{"LC_ALL", "LC_CTYPE", "LANG", "TCELL_ALTSCREEN"} {
		os.Unsetenv(v)
	}
	os.Setenv("LC_ALL", "en_US.UTF-8")
	c17session(r, c17sess{cs: "UTF-8", lc: "en_US.UTF-8", entry: "xterm"}, runes[:min(len(runes), 3000)])
}

func c17session(r *core.Run, se c17sess, runes []rune) {
	ti := Pristine(se.entry)
	if se.ti != nil {
		ti = CopyTI(se.ti)
	}
	const W, H = 40, 4
	const perRow = W / 2
	term := vt.New(W, H)
	term.FFClears = strings.HasPrefix(ti.Name, "sun")
	refAcsc := ti.AltChars
	if se.acsc != "" {
		refAcsc = se.acsc
	}
	term.Acs = vt.BuildAcs(refAcsc)
	term.AcsAlways = ti.AltChars != "" && ti.EnterAcs == ""
	term.Dec = se.dec
	glyphs := vt.AcsGlyphRunes(refAcsc)
	tic := CopyTI(ti)
	tic.PadChar = ""
	ft := faketty.New(W, H)
	ft.OnWrite = func(b []byte) { term.Feed(b) }
	s, err := tcell.NewTerminfoScreenFromTtyTerminfo(ft, tic)
	if err != nil {
		r.Inconclusive(err.Error())
		return
	}
	ft.BeginApp()
	defer ft.EndApp()
	if err := s.Init(); err != nil {
		r.Inconclusive(fmt.Sprintf("%s/%s Init: %v", se.cs, se.entry, err))
		return
	}
	defer func() { ft.BeginFini(); s.Fini() }()
	if got := s.CharacterSet(); !strings.EqualFold(got, se.cs) {
		// the locale selects se.cs, the screen would write every cell in another encoding
		r.CaseN(1, 1)
		r.Violate("charset-selection|"+csFamily(se.cs), fmt.Sprintf("the locale (LC_ALL=%q LC_CTYPE=%q LANG=%q) selects %s, but the screen uses %q", os.Getenv("LC_ALL"), os.Getenv("LC_CTYPE"), os.Getenv("LANG"), se.cs, got), map[string]any{"charset": se.cs, "entry": se.entry})
		return
	}
	utf8 := se.cs == "UTF-8"
	fallbacks := map[rune]string{}
	for k, v := range tcell.RuneFallbacks {
		fallbacks[k] = v
	}
	label := se.cs + "/" + se.entry
	fail := func(stage, what string, rn rune) {
		r.Violate(fmt.Sprintf("%s|%s|%s", stage, csFamily(se.cs), acsKind(ti)), fmt.Sprintf("%s: rune %U %q: %s", label, rn, rn, what), map[string]any{"charset": se.cs, "entry": se.entry, "rune": int(rn)})
	}
	// expectation for one rune drawn at (x,y)
	checkCell := func(rn rune, comb []rune, x, y int, when string) bool {
		w := shadow.Width(rn)
		c0 := term.At(x, y)
		var c1 *vt.Cell
		if x+1 < W {
			c1 = term.At(x+1, y)
		}
		shown, enc := se.encodable(rn)
		if utf8 {
			shown, enc = rn, true
		}
		_, hasAcs := glyphs[rn]
		fb, hasFb := fallbacks[rn]
		stage, wantR := "", rune(0)
		switch {
		case enc:
			stage, wantR = "itself", shown
		case hasAcs:
			stage = "acs"
		case hasFb:
			stage, wantR = "fallback", []rune(fb)[0]
		default:
			stage, wantR = "question-mark", '?'
		}
		ok := false
		switch stage {
		case "itself":
			ok = c0.R == wantR && len(c0.AcsSet) == 0 && c0.Wide == (shadow.Width(wantR) == 2)
		case "acs":
			for _, a := range c0.AcsSet {
				if a == rn {
					ok = true
				}
			}
			if ok && w == 2 {
				// (East Asian ambiguous width) the one-column glyph must fill the two-column cell
				ok = c1 != nil && c1.R == ' ' && !c1.Cont
			}
		default:
			ok = c0.R == wantR && len(c0.AcsSet) == 0 && !c0.Wide
			if ok && w == 2 {
				// must fill the cell's width
				ok = c1 != nil && c1.R == ' ' && !c1.Cont
			}
		}
		if !ok {
			got := fmt.Sprintf("%q", c0.R)
			if len(c0.AcsSet) > 0 {
				got = fmt.Sprintf("ACS glyph for %q", c0.AcsSet)
			}
			nxt := ""
			if c1 != nil {
				nxt = fmt.Sprintf(", next column %q", c1.R)
			}
			cat := "expected-" + stage
			if stage == "fallback" && w == 2 && c0.R == wantR && !c0.Wide && c1 != nil && c1.R != ' ' {
				cat = "wide-fallback-not-padded"
			}
			fail(cat, fmt.Sprintf("%s: expected %s (representable=%v acs=%v fallback=%q), terminal shows %s wide=%v%s", when, stage, enc, hasAcs, fb, got, c0.Wide, nxt), rn)
			return false
		}
		// a one-column cell leaves the column to its right alone (the sweep uses every other column)
		if w == 1 && c1 != nil && (c1.R != ' ' || c1.Cont) {
			fail("spill", fmt.Sprintf("%s: the cell (combining %U) also wrote %q into the column to its right", when, comb, c1.R), rn)
			return false
		}
		// combining runes: shown iff representable (and the base was shown as itself)
		if len(comb) > 0 {
			var want []rune
			if stage == "itself" {
				for _, c := range comb {
					if d, e := se.encodable(c); e || utf8 {
						if utf8 {
							d = c
						}
						want = append(want, d)
					}
				}
			}
			if !runesEq(want, c0.Comb) {
				fail("combining", fmt.Sprintf("%s: combining runes %U shown as %U, expected %U", when, comb, c0.Comb, want), rn)
				return false
			}
		}
		// CanDisplay
		cd, cdf := s.CanDisplay(rn, false), s.CanDisplay(rn, true)
		if cd != (stage == "itself" || stage == "acs") {
			fail("candisplay", fmt.Sprintf("CanDisplay(%U,false)=%v but the rune is displayed via %s", rn, cd, stage), rn)
			return false
		}
		if cdf != (stage != "question-mark") {
			fail("candisplay-fallbacks", fmt.Sprintf("CanDisplay(%U,true)=%v but the rune is displayed via %s", rn, cdf, stage), rn)
			return false
		}
		return true
	}
	errCheck := func(when string) bool {
		if len(term.Errors) > 0 {
			r.Violate(fmt.Sprintf("output:%s|%s|%s", errClass(term.Errors[0]), csFamily(se.cs), acsKind(ti)), fmt.Sprintf("%s: %s: %s", label, when, term.Errors[0]), nil)
			term.Errors, term.NErrors = nil, 0
			return false
		}
		return true
	}
	// combining content: U+0301 on every fifth cell; on another fifth (legacy charsets) a mark the
	// charset cannot represent and to which width tables give a column of its own (Hebrew point,
	// Thai vowel, variation selector, keycap, emoji modifier): it is elided like any other
	var wideMarks []rune
	for _, c := range []rune{0x05b4, 0x0e31, 0xfe0f, 0x20e3, 0x1f3fb, 0x093e} {
		if _, enc := se.encodable(c); !enc && !utf8 {
			wideMarks = append(wideMarks, c)
		}
	}
	combFor := func(i int) []rune {
		switch {
		case i%5 == 4:
			return []rune{0x301}
		case i%5 == 3 && len(wideMarks) > 0:
			return []rune{wideMarks[i%len(wideMarks)]}
		}
		return nil
	}
	s.Show()
	// the very first registration change on this screen is the removal of a standard fallback
	{
		var firsts []rune
		for rn := range tcell.RuneFallbacks {
			_, hasAcs := glyphs[rn]
			if _, enc := se.encodable(rn); !enc && !utf8 && !hasAcs && shadow.Width(rn) == 1 {
				firsts = append(firsts, rn)
			}
		}
		sort.Slice(firsts, func(i, j int) bool { return firsts[i] < firsts[j] })
		if len(firsts) > 0 {
			rn := firsts[int(r.Seed)%len(firsts)]
			s.UnregisterRuneFallback(rn)
			delete(fallbacks, rn)
			s.SetContent(2, 1, rn, nil, tcell.StyleDefault)
			s.Show()
			checkCell(rn, nil, 2, 1, "after UnregisterRuneFallback as the first registration change on the screen")
			s.RegisterRuneFallback(rn, tcell.RuneFallbacks[rn])
			fallbacks[rn] = tcell.RuneFallbacks[rn]
			s.Clear()
			s.Show()
			r.CaseN(1, 1)
		}
	}
	n := int64(0)
	for base := 0; base < len(runes); base += perRow * H {
		batch := runes[base:min(base+perRow*H, len(runes))]
		if (base/(perRow*H))%2 == 1 {
			// every other batch is drawn over a screen full of other content
			s.Fill('#', tcell.StyleDefault.Reverse(true))
			s.Show()
		}
		s.Clear()
		for i, rn := range batch {
			x, y := (i%perRow)*2, i/perRow
			s.SetContent(x, y, rn, combFor(i), tcell.StyleDefault)
		}
		if base%(3*perRow*H) == 0 {
			s.Sync()
		} else {
			s.Show()
		}
		if !errCheck("draw") {
			continue
		}
		for i, rn := range batch {
			x, y := (i%perRow)*2, i/perRow
			n++
			if !checkCell(rn, combFor(i), x, y, "draw") {
				break
			}
		}
	}
	r.CaseN(n, n)
	// fallback registration histories
	rg := r.Rand("fb", se.cs, se.entry)
	for k := 0; k < 30; k++ {
		rn := runes[rg.IntN(len(runes))]
		if _, enc := se.encodable(rn); enc || utf8 {
			continue
		}
		if _, hasAcs := glyphs[rn]; hasAcs {
			continue
		}
		w := shadow.Width(rn)
		x, y := rg.IntN(W/2)*2, rg.IntN(H)
		fbs := "x"
		if w == 2 && rg.IntN(2) == 0 {
			fbs = "[]"
		}
		if w == 2 && rg.IntN(2) == 0 {
			// fallback registered before the wide rune is ever drawn, over other content
			s.RegisterRuneFallback(rn, "x")
			fallbacks[rn] = "x"
			s.Clear()
			s.SetContent(x, y, 'a', nil, tcell.StyleDefault)
			s.SetContent(x+1, y, 'b', nil, tcell.StyleDefault)
			s.Show()
			s.SetContent(x, y, rn, nil, tcell.StyleDefault)
			s.Show()
			checkCell(rn, nil, x, y, "wide rune with a one-column fallback drawn over other content")
			s.UnregisterRuneFallback(rn)
			delete(fallbacks, rn)
			r.Case(fmt.Sprintf("fbw|%s|%s|%d", se.cs, se.entry, rn))
			continue
		}
		s.Clear()
		if w == 2 {
			// the column the wide rune will cover shows something else first
			s.SetContent(x, y, 'a', nil, tcell.StyleDefault)
			s.SetContent(x+1, y, 'b', nil, tcell.StyleDefault)
			s.Show()
		}
		s.SetContent(x, y, rn, nil, tcell.StyleDefault)
		s.Show()
		if !checkCell(rn, nil, x, y, "before RegisterRuneFallback") {
			break
		}
		s.RegisterRuneFallback(rn, fbs)
		fallbacks[rn] = fbs
		// the registration belongs to this screen only
		if s2, err := tcell.NewTerminfoScreenFromTtyTerminfo(faketty.New(W, H), CopyTI(tic)); err == nil {
			_, hasDef := tcell.RuneFallbacks[rn]
			if got := s2.CanDisplay(rn, true); got != hasDef {
				fail("fallback-leaks-to-other-screen", fmt.Sprintf("after RegisterRuneFallback(%U,%q) on one screen, CanDisplay(%U,true) on a newly created screen is %v (default table has it: %v)", rn, fbs, rn, got, hasDef), rn)
			}
		}
		if rg.IntN(2) == 0 {
			s.Sync()
		} else {
			s.SetContent(x, y, rn, nil, tcell.StyleDefault.Bold(true)) // rewrite the cell
			s.Show()
		}
		okc := true
		if len(fbs) == 2 {
			c0, c1 := term.At(x, y), term.At(x+1, y)
			if c0.R != '[' || c1.R != ']' {
				fail("expected-fallback", fmt.Sprintf("after RegisterRuneFallback(%U,%q) and a redraw the terminal shows %q%q", rn, fbs, c0.R, c1.R), rn)
				okc = false
			}
		} else {
			okc = checkCell(rn, nil, x, y, "after RegisterRuneFallback")
		}
		s.UnregisterRuneFallback(rn)
		delete(fallbacks, rn)
		if orig, ok := tcell.RuneFallbacks[rn]; ok {
			_ = orig // Unregister removes the default one as well
		}
		s.Sync()
		if okc && !checkCell(rn, nil, x, y, "after UnregisterRuneFallback") {
			break
		}
		errCheck("fallback history")
		r.Case(fmt.Sprintf("fb|%s|%s|%d", se.cs, se.entry, rn))
	}
	// registration changes for runes the terminal shows through its ACS map: the glyph has
	// priority over a registered fallback, and unregistering must not take it away
	var acsRunes []rune
	for rn := range glyphs {
		if _, enc := se.encodable(rn); !enc && !utf8 {
			acsRunes = append(acsRunes, rn)
		}
	}
	sort.Slice(acsRunes, func(i, j int) bool { return acsRunes[i] < acsRunes[j] })
	for k := 0; k < 6 && len(acsRunes) > 0; k++ {
		rn := acsRunes[rg.IntN(len(acsRunes))]
		x, y := rg.IntN(W/2)*2, rg.IntN(H)
		s.Clear()
		s.SetContent(x, y, rn, nil, tcell.StyleDefault)
		s.Show()
		if !checkCell(rn, nil, x, y, "ACS rune before RegisterRuneFallback") {
			break
		}
		s.RegisterRuneFallback(rn, "=")
		fallbacks[rn] = "="
		s.Sync()
		ok1 := checkCell(rn, nil, x, y, "ACS rune after RegisterRuneFallback(\"=\")")
		s.UnregisterRuneFallback(rn)
		delete(fallbacks, rn)
		s.Sync()
		if ok1 && !checkCell(rn, nil, x, y, "ACS rune after UnregisterRuneFallback") {
			break
		}
		errCheck("acs fallback history")
		r.Case(fmt.Sprintf("fbacs|%s|%s|%d", se.cs, se.entry, rn))
	}
	if se.entry == "xterm" {
		r.Sample(5, map[string]any{"charset": se.cs, "entry": se.entry, "runes": len(runes), "example": fmt.Sprintf("%U", runes[:6])})
	}
}

func acsKind(ti *terminfo.Terminfo) string {
	switch {
	case ti.AltChars == "":
		return "no-acs"
	case strings.Contains(ti.EnterAcs, "\x1b[11m") || strings.Contains(ti.EnterAcs, "\x1b[12m"):
		return "acs-sgr11"
	case strings.Contains(ti.EnterAcs, "\x0e"):
		return "acs-so"
	}
	return "acs-scs"
}

func isOct(b byte) bool { return b >= '0' && b <= '7' }

// c17dynamic loads cons25 through tcell's dynamic loader and, independently, reads its acsc
// capability from the infocmp output. Glyphs that are control bytes (arrows on the PC console)
// are left out on both sides: the reference terminal has no PC font for them.
func c17dynamic(r *core.Run) (c17sess, bool) {
	out, err := exec.Command("infocmp", "-1", "cons25").Output()
	if err != nil {
		r.Count("dynamic_description_unavailable", 1)
		return c17sess{}, false
	}
	raw := ""
	for _, line := range strings.Split(string(out), "\n") {
		line = strings.TrimSpace(line)
		if strings.HasPrefix(line, "acsc=") {
			raw = strings.TrimSuffix(strings.TrimPrefix(line, "acsc="), ",")
		}
	}
	// terminfo(5) escapes: \ooo octal, \E, ^X, \\ \, \: \^ \0
	var acsc []byte
	for i := 0; i < len(raw); i++ {
		c := raw[i]
		switch {
		case c == '\\' && i+3 < len(raw) && isOct(raw[i+1]) && isOct(raw[i+2]) && isOct(raw[i+3]):
			acsc = append(acsc, (raw[i+1]-'0')<<6|(raw[i+2]-'0')<<3|(raw[i+3]-'0'))
			i += 3
		case c == '\\' && i+1 < len(raw):
			i++
			switch raw[i] {
			case 'E', 'e':
				acsc = append(acsc, 0x1b)
			case 'n':
				acsc = append(acsc, '\n')
			case 'r':
				acsc = append(acsc, '\r')
			case 't':
				acsc = append(acsc, '\t')
			case 's':
				acsc = append(acsc, ' ')
			case '0':
				acsc = append(acsc, 0x80)
			default:
				acsc = append(acsc, raw[i])
			}
		case c == '^' && i+1 < len(raw):
			i++
			acsc = append(acsc, raw[i]&0x1f)
		default:
			acsc = append(acsc, c)
		}
	}
	clean := func(a string) string {
		var b []byte
		for i := 0; i+1 < len(a); i += 2 {
			if a[i+1] >= 0x20 && a[i+1] != 0x7f {
				b = append(b, a[i], a[i+1])
			}
		}
		return string(b)
	}
	ti, _, err := dynamic.LoadTerminfo("cons25")
	if err != nil || ti == nil {
		r.Count("dynamic_description_unavailable", 1)
		return c17sess{}, false
	}
	ti = CopyTI(ti)
	ti.AltChars = clean(ti.AltChars)
	ti.Name, ti.Aliases = "cons25-via-infocmp", nil
	r.Count("dynamic_description_sessions", 1)
	return c17sess{cs: "US-ASCII", lc: "C", dec: asciiDecoder, entry: "cons25-via-infocmp", ti: ti, acsc: clean(string(acsc))}, true
}
