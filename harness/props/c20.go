package props

import (
	"fmt"
	"math"
	"math/big"
	"strings"

	"github.com/gdamore/tcell/v2"
	"github.com/gdamore/tcell/v2/views"

	"verif/core"
)

func init() { register("C20", C20) }

// recView is a recording parent View of fixed size.
type recView struct {
	w, h int
	log  []recCall
	grid map[[2]int]rune
}

type recCall struct {
	x, y int
	ch   rune
}

func (v *recView) SetContent(x, y int, ch rune, comb []rune, st tcell.Style) {
	v.log = append(v.log, recCall{x, y, ch})
	if v.grid != nil {
		v.grid[[2]int{x, y}] = ch
	}
}
func (v *recView) Size() (int, int)      { return v.w, v.h }
func (v *recView) Resize(x, y, w, h int) {}
func (v *recView) Clear()                { v.Fill(' ', tcell.StyleDefault) }
func (v *recView) Fill(ch rune, st tcell.Style) {
	for y := 0; y < v.h; y++ {
		for x := 0; x < v.w; x++ {
			v.SetContent(x, y, ch, nil, st)
		}
	}
}

// recWidget is a leaf widget with a fixed preferred size; it fills the whole
// view it is given with its own rune when drawn.
type recWidget struct {
	id     rune
	pw, ph int
	view   views.View
	views.WidgetWatchers
}

func (w *recWidget) Draw() {
	if w.view == nil {
		return
	}
	vw, vh := w.view.Size()
	for y := 0; y < vh; y++ {
		for x := 0; x < vw; x++ {
			w.view.SetContent(x, y, w.id, nil, tcell.StyleDefault)
		}
	}
}
func (w *recWidget) Resize()                         {}
func (w *recWidget) HandleEvent(ev tcell.Event) bool { return false }
func (w *recWidget) SetView(v views.View)            { w.view = v }
func (w *recWidget) Size() (int, int)                { return w.pw, w.ph }

func C20(r *core.Run) {
	r.Rule = "seeded histories. ViewPort: random geometry then 10-60 ops of SetContent/Fill/Scroll*/Center/MakeVisible/Resize/SetSize/SetContentSize on a real ViewPort over a recording parent; after every op the parent log is checked (position = content - offset + origin, inside the rectangle, visible content delivered once) and the offset limits in the inside-before => inside-after form. BoxLayout: up to 8 recording children (nested depth <= 2), random preferred sizes and fill factors, ops Add/Insert/Remove/SetOrientation/view-resize/Draw; child rectangles read back from the ViewPorts the children were given and from what a full Draw paints on the root; order, disjointness, containment, preferred extent and exact rational surplus shares checked. distinct = distinct op trace."
	r.Assumptions = []string{"the rectangle a ViewPort occupies is what GetPhysical()/Size() report; Resize(x,y,..) with 0<=x<parent width, 0<=y<parent height sets the origin to (x,y)", "surplus shares computed in exact rationals from the float64 fill factors, tolerance 1e-9", "children of a layout whose space does not suffice are only required to be ordered, disjoint and inside the view"}
	nv := r.Pick(20000, 600000)
	core.Parallel(16, func(w int) {
		for i := w; i < nv; i += 16 {
			c20viewport(r, i)
		}
	})
	nb := r.Pick(20000, 600000)
	core.Parallel(16, func(w int) {
		for i := w; i < nb; i += 16 {
			c20box(r, i)
		}
	})
}

func c20viewport(r *core.Run, idx int) {
	rg := r.Rand("vp", idx)
	parent := &recView{w: 1 + rg.IntN(30), h: 1 + rg.IntN(15)}
	var trace []string
	tr := func(f string, a ...any) { trace = append(trace, fmt.Sprintf(f, a...)) }
	ox, oy := rg.IntN(parent.w), rg.IntN(parent.h)
	iw, ih := rg.IntN(parent.w-ox+2)-1, rg.IntN(parent.h-oy+2)-1
	vp := views.NewViewPort(parent, ox, oy, iw, ih)
	c20locked, c20lw, c20lh := false, 0, 0
	tr("NewViewPort(parent %dx%d, %d,%d,%d,%d)", parent.w, parent.h, ox, oy, iw, ih)
	wantOX, wantOY := ox, oy
	fail := func(sig, what string) {
		r.Violate("viewport:"+sig, fmt.Sprintf("%s after: %s", what, strings.Join(trace, " ")), map[string]any{"case": idx, "trace": trace})
	}
	inLimits := func() (bool, bool) {
		x1, y1, _, _ := vp.GetVisible()
		w, h := vp.Size()
		lx, ly := vp.GetContentSize()
		okx := x1 >= 0 && (lx <= w || x1+w <= lx)
		oky := y1 >= 0 && (ly <= h || y1+h <= ly)
		return okx, oky
	}
	geomOK := func() bool {
		px1, py1, px2, py2 := vp.GetPhysical()
		w, h := vp.Size()
		if px2 != px1+w-1 || py2 != py1+h-1 {
			fail("geometry", fmt.Sprintf("GetPhysical=(%d,%d,%d,%d) inconsistent with Size=(%d,%d)", px1, py1, px2, py2, w, h))
			return false
		}
		if px1 != wantOX || py1 != wantOY {
			fail("origin", fmt.Sprintf("origin is (%d,%d), the last valid Resize put it at (%d,%d)", px1, py1, wantOX, wantOY))
			return false
		}
		return true
	}
	if !geomOK() {
		return
	}
	nops := 10 + rg.IntN(50)
	for k := 0; k < nops; k++ {
		bx, by := inLimits()
		parent.log = parent.log[:0]
		scroll := ""
		switch op := rg.IntN(100); {
		case op < 35:
			lx, ly := vp.GetContentSize()
			cx, cy := rg.IntN(lx+8)-3, rg.IntN(ly+8)-3
			ch := rune('a' + rg.IntN(26))
			x1, y1, _, _ := vp.GetVisible()
			px1, py1, _, _ := vp.GetPhysical()
			w, h := vp.Size()
			vp.SetContent(cx, cy, ch, nil, tcell.StyleDefault)
			tr("SetContent(%d,%d)", cx, cy)
			visible := cx >= x1 && cy >= y1 && cx < x1+w && cy < y1+h
			if visible {
				if len(parent.log) != 1 || parent.log[0] != (recCall{cx - x1 + px1, cy - y1 + py1, ch}) {
					fail("mapping", fmt.Sprintf("content (%d,%d) with offset (%d,%d) origin (%d,%d) size %dx%d reached the parent as %v, want one call at (%d,%d)", cx, cy, x1, y1, px1, py1, w, h, parent.log, cx-x1+px1, cy-y1+py1))
					return
				}
			} else if len(parent.log) != 0 {
				fail("clip", fmt.Sprintf("content (%d,%d) outside the visible window offset (%d,%d) size %dx%d reached the parent: %v", cx, cy, x1, y1, w, h, parent.log))
				return
			}
			if !visible {
				// growing content never moves the window
				x1b, y1b, _, _ := vp.GetVisible()
				if x1b != x1 || y1b != y1 {
					fail("setcontent-moved-window", "SetContent changed the offset")
					return
				}
			}
			continue // content growth may legitimately change limits; no scroll check
		case op < 40:
			vp.Fill('#', tcell.StyleDefault)
			tr("Fill")
			px1, py1, _, _ := vp.GetPhysical()
			w, h := vp.Size()
			seen := map[[2]int]int{}
			for _, c := range parent.log {
				if c.x < px1 || c.y < py1 || c.x >= px1+w || c.y >= py1+h {
					fail("fill-outside", fmt.Sprintf("Fill wrote (%d,%d) outside the rectangle origin (%d,%d) size %dx%d", c.x, c.y, px1, py1, w, h))
					return
				}
				seen[[2]int{c.x, c.y}]++
			}
			if w > 0 && h > 0 && len(seen) != w*h {
				fail("fill-incomplete", fmt.Sprintf("Fill wrote %d distinct cells of a %dx%d rectangle", len(seen), w, h))
				return
			}
			continue
		case op < 48:
			n := rg.IntN(12) - 2
			vp.ScrollUp(n)
			tr("ScrollUp(%d)", n)
			scroll = "y"
		case op < 56:
			n := rg.IntN(12) - 2
			vp.ScrollDown(n)
			tr("ScrollDown(%d)", n)
			scroll = "y"
		case op < 62:
			n := rg.IntN(12) - 2
			vp.ScrollLeft(n)
			tr("ScrollLeft(%d)", n)
			scroll = "x"
		case op < 68:
			n := rg.IntN(12) - 2
			vp.ScrollRight(n)
			tr("ScrollRight(%d)", n)
			scroll = "x"
		case op < 75:
			lx, ly := vp.GetContentSize()
			x, y := rg.IntN(lx+6)-2, rg.IntN(ly+6)-2
			vp.Center(x, y)
			tr("Center(%d,%d)", x, y)
			scroll = "xy"
		case op < 84:
			lx, ly := vp.GetContentSize()
			x, y := rg.IntN(lx+6)-2, rg.IntN(ly+6)-2
			vp.MakeVisible(x, y)
			tr("MakeVisible(%d,%d)", x, y)
			scroll = "xy"
			if bx && by {
				// the point, if inside the content, is visible afterwards
				x1, y1, x2, y2 := vp.GetVisible()
				w, h := vp.Size()
				if w > 0 && h > 0 && x >= 0 && y >= 0 && x < lx && y < ly && (x < x1 || x > x2 || y < y1 || y > y2) {
					fail("makevisible", fmt.Sprintf("MakeVisible(%d,%d): point not in visible window (%d,%d)-(%d,%d), content %dx%d", x, y, x1, y1, x2, y2, lx, ly))
					return
				}
			}
		case op < 90:
			x, y := rg.IntN(parent.w+3)-1, rg.IntN(parent.h+3)-1
			w, h := rg.IntN(parent.w+3)-1, rg.IntN(parent.h+3)-1
			vp.Resize(x, y, w, h)
			tr("Resize(%d,%d,%d,%d)", x, y, w, h)
			if x >= 0 && x < parent.w {
				wantOX = x
			}
			if y >= 0 && y < parent.h {
				wantOY = y
			}
			if !geomOK() {
				return
			}
			if x >= 0 && x < parent.w && y >= 0 && y < parent.h {
				gw, gh := vp.Size()
				ew, eh := w, h
				if ew < 0 || ew > parent.w-x {
					ew = parent.w - x
				}
				if eh < 0 || eh > parent.h-y {
					eh = parent.h - y
				}
				if gw != ew || gh != eh {
					fail("resize-size", fmt.Sprintf("Resize(%d,%d,%d,%d) in a %dx%d parent gave size %dx%d, want %dx%d", x, y, w, h, parent.w, parent.h, gw, gh, ew, eh))
					return
				}
			}
			continue
		case op < 95:
			w, h := rg.IntN(parent.w+1), rg.IntN(parent.h+1)
			vp.SetSize(w, h)
			tr("SetSize(%d,%d)", w, h)
			if gw, gh := vp.Size(); gw != w || gh != h {
				fail("setsize", "SetSize not reflected by Size")
				return
			}
			continue
		default:
			w, h := rg.IntN(60), rg.IntN(40)
			lk := rg.IntN(2) == 0
			if rg.IntN(3) == 0 {
				// the size the content already has, only the locked flag (possibly) changes
				w, h = vp.GetContentSize()
			}
			vp.SetContentSize(w, h, lk)
			tr("SetContentSize(%d,%d,%v)", w, h, lk)
			if gw, gh := vp.GetContentSize(); gw != w || gh != h {
				fail("setcontentsize", "SetContentSize not reflected by GetContentSize")
				return
			}
			c20locked, c20lw, c20lh = lk, w, h
			continue
		}
		if c20locked {
			// locked content keeps its size whatever is drawn beyond it
			if gw, gh := vp.GetContentSize(); gw != c20lw || gh != c20lh {
				fail("locked-content-grew", fmt.Sprintf("the content size was locked at %dx%d, after the last operation it is %dx%d", c20lw, c20lh, gw, gh))
				return
			}
		}
		ax, ay := inLimits()
		x1, y1, _, _ := vp.GetVisible()
		w, h := vp.Size()
		lx, ly := vp.GetContentSize()
		if strings.Contains(scroll, "x") && bx && !ax {
			fail("limits-x", fmt.Sprintf("x offset left the content limits: offset %d, view width %d, content width %d", x1, w, lx))
			return
		}
		if strings.Contains(scroll, "y") && by && !ay {
			fail("limits-y", fmt.Sprintf("y offset left the content limits: offset %d, view height %d, content height %d", y1, h, ly))
			return
		}
		if !geomOK() {
			return
		}
	}
	r.Case("vp|" + strings.Join(trace, ";"))
	if idx < 2 {
		r.Sample(6, map[string]any{"kind": "viewport", "ops": trace})
	}
}

// ---------------------------------------------------------------------------

type boxNode struct {
	leaf   *recWidget
	box    *views.BoxLayout
	orient views.Orientation
	kids   []*boxNode
	fill   float64
	probe  *boxProbe
}

func (n *boxNode) widget() views.Widget {
	if n.leaf != nil {
		return n.leaf
	}
	if n.probe != nil {
		return n.probe
	}
	return n.box
}

// pref is the preferred size the model derives for a node.
func (n *boxNode) pref() (int, int) {
	if n.leaf != nil {
		return n.leaf.pw, n.leaf.ph
	}
	w, h := 0, 0
	for _, k := range n.kids {
		kw, kh := k.pref()
		if n.orient == views.Horizontal {
			w += kw
			if kh > h {
				h = kh
			}
		} else {
			h += kh
			if kw > w {
				w = kw
			}
		}
	}
	return w, h
}

type rect struct{ x, y, w, h int }

func (a rect) empty() bool { return a.w <= 0 || a.h <= 0 }
func (a rect) overlaps(b rect) bool {
	if a.empty() || b.empty() {
		return false
	}
	return a.x < b.x+b.w && b.x < a.x+a.w && a.y < b.y+b.h && b.y < a.y+a.h
}

var c20fills = []float64{0, 0, 0.25, 0.5, 1, 1, 2, 3}

func c20box(r *core.Run, idx int) {
	rg := r.Rand("box", idx)
	root := &recView{w: 1 + rg.IntN(60), h: 1 + rg.IntN(30)}
	var trace []string
	tr := func(f string, a ...any) { trace = append(trace, fmt.Sprintf(f, a...)) }
	nextID := rune('A')
	newLeaf := func() *boxNode {
		id := nextID
		nextID++
		return &boxNode{leaf: &recWidget{id: id, pw: rg.IntN(13), ph: rg.IntN(7)}}
	}
	fillF := func() float64 {
		if rg.IntN(4) == 0 {
			return rg.Float64() * 3
		}
		return c20fills[rg.IntN(len(c20fills))]
	}
	orientOf := func() views.Orientation {
		if rg.IntN(2) == 0 {
			return views.Horizontal
		}
		return views.Vertical
	}
	top := &boxNode{orient: orientOf()}
	top.box = views.NewBoxLayout(top.orient)
	top.box.SetView(root)
	tr("root %dx%d orient=%d", root.w, root.h, top.orient)
	fail := func(sig, what string) {
		r.Violate("boxlayout:"+sig, fmt.Sprintf("%s after: %s", what, strings.Join(trace, " ")), map[string]any{"case": idx, "trace": trace})
	}
	total := 0

	// check verifies node n whose view has size (W,H); abs is its absolute origin on the root.
	var check func(n *boxNode, W, H int, absx, absy int, exact bool, owners map[rune]rect) bool
	check = func(n *boxNode, W, H int, absx, absy int, exact bool, owners map[rune]rect) bool {
		horiz := n.orient == views.Horizontal
		fail := func(sig, what string) {
			fail(sig, fmt.Sprintf("in %s with view %dx%d at (%d,%d): %s", n.desc(), W, H, absx, absy, what))
		}
		sum, totf := 0, 0.0
		for _, k := range n.kids {
			kw, kh := k.pref()
			if horiz {
				sum += kw
			} else {
				sum += kh
			}
			totf += k.fill
		}
		avail := W
		if !horiz {
			avail = H
		}
		suffices := sum <= avail
		extra := avail - sum
		if extra < 0 {
			extra = 0
		}
		var rects []rect
		pos := 0
		padsum := 0
		for i, k := range n.kids {
			var vp *views.ViewPort
			if k.leaf != nil {
				v, ok := k.leaf.view.(*views.ViewPort)
				if !ok {
					fail("child-view", fmt.Sprintf("child %d was not given a ViewPort", i))
					return false
				}
				vp = v
			}
			var rc rect
			if vp != nil {
				x1, y1, _, _ := vp.GetPhysical()
				w, h := vp.Size()
				rc = rect{x1, y1, w, h}
			} else {
				// nested layout: read its rectangle from the view the layout passed
				// to it, which the harness cannot reach; use the first leaf chain
				// instead: nested nodes record their view through a probe widget
				rc = k.probeRect()
			}
			rects = append(rects, rc)
			kw, kh := k.pref()
			prefExt, ext, start, cross, crossAvail := kw, rc.w, rc.x, rc.h, H
			if !horiz {
				prefExt, ext, start, cross, crossAvail = kh, rc.h, rc.y, rc.w, W
			}
			if !rc.empty() {
				if rc.x < 0 || rc.y < 0 || rc.x+rc.w > W || rc.y+rc.h > H {
					fail("outside-view", fmt.Sprintf("child %d rectangle %+v leaves the layout's %dx%d view", i, rc, W, H))
					return false
				}
			}
			if suffices && exact {
				if ext < prefExt {
					fail("below-preferred", fmt.Sprintf("child %d got extent %d < preferred %d although space suffices (avail %d, sum %d)", i, ext, prefExt, avail, sum))
					return false
				}
				if !(prefExt == 0 && ext == 0 && pos >= avail) { // a zero-size child at the far edge keeps a stale origin
					if start != pos && !(ext == 0 && crossAvail == 0) {
						if !(ext <= 0 && start != pos && pos >= avail) {
							fail("position", fmt.Sprintf("child %d starts at %d, expected %d (children are placed in order, back to back)", i, start, pos))
							return false
						}
					}
				}
				if ext > 0 && cross != crossAvail && crossAvail > 0 {
					fail("cross-extent", fmt.Sprintf("child %d cross extent %d, layout view has %d", i, cross, crossAvail))
					return false
				}
				pad := ext - prefExt
				padsum += pad
				lo, hi := 0, 0
				if totf > 0 && k.fill > 0 {
					share := new(big.Rat).Mul(big.NewRat(int64(extra), 1), new(big.Rat).Quo(new(big.Rat).SetFloat64(k.fill), new(big.Rat).SetFloat64(totf)))
					f, _ := share.Float64()
					lo, hi = int(math.Floor(f-1e-9)), int(math.Ceil(f+1e-9))
					if lo < 0 {
						lo = 0
					}
				}
				if pad < lo || pad > hi {
					fail("share", fmt.Sprintf("child %d (fill %.4g of %.4g) got %d surplus cells of %d, its proportional share allows %d..%d", i, k.fill, totf, pad, extra, lo, hi))
					return false
				}
				pos += ext
			}
		}
		if suffices && exact && totf > 0 && padsum != extra {
			fail("surplus-total", fmt.Sprintf("surplus %d but children received %d in total", extra, padsum))
			return false
		}
		// order and disjointness (always)
		lastEnd := -1 << 30
		for i, rc := range rects {
			if rc.empty() {
				continue
			}
			s, e := rc.x, rc.x+rc.w
			if !horiz {
				s, e = rc.y, rc.y+rc.h
			}
			if s < lastEnd {
				fail("order-overlap", fmt.Sprintf("child %d (%+v) starts at %d before the previous child ends at %d", i, rc, s, lastEnd))
				return false
			}
			lastEnd = e
			for j := 0; j < i; j++ {
				if rects[j].overlaps(rc) {
					fail("overlap", fmt.Sprintf("children %d %+v and %d %+v overlap", j, rects[j], i, rc))
					return false
				}
			}
		}
		for i, k := range n.kids {
			rc := rects[i]
			if k.leaf != nil {
				owners[k.leaf.id] = rect{absx + rc.x, absy + rc.y, rc.w, rc.h}
			} else if !check(k, rc.w, rc.h, absx+rc.x, absy+rc.y, exact && suffices, owners) {
				return false
			}
		}
		return true
	}

	verify := func(draw bool) bool {
		if draw {
			// Draw first: a layout marked changed re-lays out when drawn
			root.grid = map[[2]int]rune{}
			root.log = root.log[:0]
			top.box.Draw()
		}
		owners := map[rune]rect{}
		if !check(top, root.w, root.h, 0, 0, true, owners) {
			return false
		}
		if !draw {
			return true
		}
		for _, c := range root.log {
			if c.x < 0 || c.y < 0 || c.x >= root.w || c.y >= root.h {
				fail("draw-outside-root", fmt.Sprintf("Draw wrote (%d,%d) outside the %dx%d root view", c.x, c.y, root.w, root.h))
				return false
			}
		}
		for p, ch := range root.grid {
			if ch == ' ' {
				continue
			}
			rc, ok := owners[ch]
			if !ok || p[0] < rc.x || p[1] < rc.y || p[0] >= rc.x+rc.w || p[1] >= rc.y+rc.h {
				fail("paint-outside-rect", fmt.Sprintf("widget %c painted (%d,%d) outside its rectangle %+v", ch, p[0], p[1], rc))
				return false
			}
		}
		for id, rc := range owners {
			for y := rc.y; y < rc.y+rc.h; y++ {
				for x := rc.x; x < rc.x+rc.w; x++ {
					if root.grid[[2]int{x, y}] != id {
						fail("paint-missing", fmt.Sprintf("cell (%d,%d) of widget %c's rectangle %+v shows %q", x, y, id, rc, root.grid[[2]int{x, y}]))
						return false
					}
				}
			}
		}
		root.grid = nil
		return true
	}

	all := []*boxNode{top} // layouts that can receive children
	nops := 4 + rg.IntN(20)
	for k := 0; k < nops; k++ {
		switch op := rg.IntN(100); {
		case op < 40 && total < 8:
			parent := all[rg.IntN(len(all))]
			var kid *boxNode
			if parent == top && rg.IntN(5) == 0 && len(all) < 3 {
				kid = &boxNode{orient: orientOf()}
				kid.box = views.NewBoxLayout(kid.orient)
				kid.probe = &boxProbe{BoxLayout: kid.box}
				if rg.IntN(2) == 0 {
					// the application watches the nested layout too, with a handler that reports the
					// event as handled: watchers are independent observers
					kid.box.Watch(c20consume{})
					tr("%s.Watch(handler returning true)", kid.desc())
				}
				all = append(all, kid)
			} else {
				kid = newLeaf()
			}
			kid.fill = fillF()
			total++
			if rg.IntN(2) == 0 {
				parent.box.AddWidget(kid.widget(), kid.fill)
				parent.kids = append(parent.kids, kid)
				tr("%s.Add(%s fill=%.3g)", parent.desc(), kid.desc(), kid.fill)
			} else {
				at := rg.IntN(len(parent.kids)+3) - 1
				parent.box.InsertWidget(at, kid.widget(), kid.fill)
				pos := at
				if pos < 0 {
					pos = 0
				}
				if pos > len(parent.kids) {
					pos = len(parent.kids)
				}
				parent.kids = append(parent.kids[:pos], append([]*boxNode{kid}, parent.kids[pos:]...)...)
				tr("%s.Insert(%d,%s fill=%.3g)", parent.desc(), at, kid.desc(), kid.fill)
			}
			if parent != top {
				// the outer layout learns of the change through a content event and
				// re-lays out at its next Draw
				if !verify(true) {
					return
				}
				continue
			}
		case op < 55:
			parent := all[rg.IntN(len(all))]
			if len(parent.kids) == 0 {
				continue
			}
			i := rg.IntN(len(parent.kids))
			kid := parent.kids[i]
			if kid.box != nil {
				continue // keep nested layouts in place
			}
			parent.box.RemoveWidget(kid.widget())
			parent.kids = append(parent.kids[:i], parent.kids[i+1:]...)
			total--
			tr("%s.Remove(%s)", parent.desc(), kid.desc())
			if parent != top {
				if !verify(true) {
					return
				}
				continue
			}
		case op < 65:
			// only the outermost layout is re-oriented: a nested layout's preferred
			// size is whatever it reported at the outer layout's last pass, and the
			// statement does not say when a change of it must be picked up
			n := top
			n.orient = orientOf()
			n.box.SetOrientation(n.orient)
			tr("%s.SetOrientation(%d)", n.desc(), n.orient)
			if !verify(true) { // takes effect at the next Draw
				return
			}
			continue
		case op < 80:
			root.w, root.h = 1+rg.IntN(60), 1+rg.IntN(30)
			top.box.Resize()
			tr("view-resize(%d,%d)", root.w, root.h)
		default:
			tr("Draw")
			if !verify(true) {
				return
			}
			continue
		}
		if !verify(false) {
			return
		}
	}
	if !verify(true) {
		return
	}
	if total >= 2 {
		r.Case("box|" + strings.Join(trace, ";"))
	} else {
		r.Case("")
	}
	if idx < 2 {
		r.Sample(6, map[string]any{"kind": "boxlayout", "ops": trace})
	}
}

func (n *boxNode) desc() string {
	if n.leaf != nil {
		return fmt.Sprintf("%c:%dx%d", n.leaf.id, n.leaf.pw, n.leaf.ph)
	}
	return fmt.Sprintf("box(orient=%d)", n.orient)
}

// c20consume is an application event handler that claims every event.
type c20consume struct{}

func (c20consume) HandleEvent(tcell.Event) bool { return true }

// boxProbe wraps a nested BoxLayout so that the harness can see the view the
// outer layout hands to it.
type boxProbe struct {
	*views.BoxLayout
	view views.View
}

func (p *boxProbe) SetView(v views.View) { p.view = v; p.BoxLayout.SetView(v) }

func (p *boxProbe) rect() rect {
	vp, ok := p.view.(*views.ViewPort)
	if !ok {
		return rect{}
	}
	x1, y1, _, _ := vp.GetPhysical()
	w, h := vp.Size()
	return rect{x1, y1, w, h}
}

func (n *boxNode) probeRect() rect { return n.probe.rect() }
