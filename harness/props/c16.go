package props

import (
	"fmt"
	ic "image/color"
	"sort"

	"github.com/gdamore/tcell/v2"

	"verif/colorref"
	"verif/core"
)

func init() { register("C16", C16) }

type labPal struct {
	cols    []tcell.Color
	l, a, b []float64
}

func mkLabPal(cols []tcell.Color) *labPal {
	p := &labPal{cols: cols}
	for _, c := range cols {
		hex := refHex(c)
		l, a, b := colorref.Lab(hex)
		p.l, p.a, p.b = append(p.l, l), append(p.a, a), append(p.b, b)
	}
	return p
}

// refHex is the reference RGB value of a valid palette or RGB colour.
func refHex(c tcell.Color) int32 {
	if c&tcell.ColorIsRGB != 0 {
		return int32(c & 0xffffff)
	}
	return colorref.Palette(int(c & 0xff))
}

const fitTol = 1e-9

// checkFit checks one FindColor call against the reference.
func checkFit(r *core.Run, what string, c tcell.Color, hex int32, p *labPal) bool {
	got := tcell.FindColor(c, p.cols)
	l, a, b := colorref.Lab(hex)
	best, gotD, member := -1.0, -1.0, false
	for i := range p.cols {
		d := colorref.Dist(l, a, b, p.l[i], p.a[i], p.b[i])
		if best < 0 || d < best {
			best = d
		}
		if p.cols[i] == got {
			if !member || d < gotD {
				gotD = d
			}
			member = true
		}
	}
	if !member {
		r.Violate("findcolor:not-a-member:"+what, fmt.Sprintf("FindColor(#%06x, %s palette of %d) = %v (%#x), which is not in the palette", hex, what, len(p.cols), got, uint64(got)), map[string]any{"color": hex, "palette": what})
		return false
	}
	if gotD > best+fitTol {
		r.Violate("findcolor:not-nearest:"+what, fmt.Sprintf("FindColor(#%06x, %s palette of %d) = %v at CIE76 distance %.12f, but another member is at %.12f", hex, what, len(p.cols), got, gotD, best), map[string]any{"color": hex, "palette": what})
		return false
	}
	return true
}

func C16(r *core.Run) {
	r.Rule = "exhaustive: 256 palette indices vs the xterm formula; every CSS3/SVG colour keyword vs the harness's keyword table (both directions); conversions Hex/RGB/NewRGBColor/NewHexColor/TrueColor/CSS/GetColor/FromImageColor over all 2^24 values (distinct by construction); invalid/special values. FindColor vs an independent sRGB->CIELAB CIE76 computation (tolerance 1e-9) against the 8/16/88/256-entry palettes (quick: a 32^3 lattice + seeded random; thorough: all 2^24) and seeded random palettes of 1..40 colours, including runs of equal-size different palettes queried with the same colours, palette-indexed queries against non-identity palettes (random, monochrome, reversed, rotated, RGB-only)."
	r.Assumptions = []string{"16 basic colours are the W3C/VGA 16; cube levels 0,95,135,175,215,255; greys 8+10k", "CIE76 on D65 CIELAB; ties within 1e-9 accepted"}

	// ---- palette ------------------------------------------------------------
	for i := 0; i < 256; i++ {
		c := tcell.PaletteColor(i)
		if got, want := c.Hex(), colorref.Palette(i); got != want || !c.Valid() || c.IsRGB() {
			r.Violate("palette:value", fmt.Sprintf("PaletteColor(%d).Hex() = %#06x, xterm formula gives %#06x", i, got, want), i)
		}
		if tc := c.TrueColor(); tc != tcell.NewHexColor(colorref.Palette(i)) {
			r.Violate("palette:truecolor", fmt.Sprintf("PaletteColor(%d).TrueColor() = %#x", i, uint64(tc)), i)
		}
	}
	r.CaseN(256, 256)

	// ---- names --------------------------------------------------------------
	var names []string
	for n := range colorref.CSS {
		names = append(names, n)
	}
	sort.Strings(names)
	for _, n := range names {
		c := tcell.GetColor(n)
		if c.Hex() != colorref.CSS[n] {
			r.Violate("name:value", fmt.Sprintf("GetColor(%q).Hex() = %#06x, CSS value is %#06x", n, c.Hex(), colorref.CSS[n]), n)
		}
		if c2, ok := tcell.ColorNames[n]; !ok || c2 != c {
			r.Violate("name:missing", fmt.Sprintf("ColorNames[%q] missing or different from GetColor", n), n)
		}
	}
	extra := 0
	for n, c := range tcell.ColorNames {
		if want, ok := colorref.CSS[n]; ok {
			if c.Hex() != want {
				r.Violate("name:value", fmt.Sprintf("ColorNames[%q].Hex() = %#06x, CSS value is %#06x", n, c.Hex(), want), n)
			}
		} else {
			extra++
		}
		// every named colour constant must round-trip through its name
		if nm := c.Name(); tcell.ColorNames[nm] != c {
			r.Violate("name:roundtrip", fmt.Sprintf("Color %q: Name() = %q which maps to a different colour", n, nm), n)
		}
	}
	r.Set("names_checked", len(names))
	r.Set("names_in_tcell_not_in_css_table", extra)
	r.CaseN(int64(len(names)), int64(len(names)))

	// ---- conversions --------------------------------------------------------
	stride := 1
	core.Parallel(256, func(rr int) {
		for g := 0; g < 256; g += stride {
			for b := 0; b < 256; b += stride {
				v := int32(rr<<16 | g<<8 | b)
				c := tcell.NewHexColor(v)
				bad := ""
				switch {
				case !c.Valid() || !c.IsRGB():
					bad = "Valid/IsRGB false"
				case c.Hex() != v:
					bad = fmt.Sprintf("Hex()=%#x", c.Hex())
				case tcell.NewRGBColor(int32(rr), int32(g), int32(b)) != c:
					bad = "NewRGBColor differs from NewHexColor"
				case c.TrueColor() != c:
					bad = "TrueColor() not identity on RGB colour"
				case tcell.FromImageColor(ic.RGBA{R: uint8(rr), G: uint8(g), B: uint8(b), A: 255}) != c:
					bad = "FromImageColor differs"
				}
				if bad == "" {
					r1, g1, b1 := c.RGB()
					if int(r1) != rr || int(g1) != g || int(b1) != b {
						bad = fmt.Sprintf("RGB()=%d,%d,%d", r1, g1, b1)
					}
				}
				if bad == "" && (b%5 == 0 || !r.Quick()) {
					css := c.CSS()
					if want := fmt.Sprintf("#%06X", v); css != want {
						bad = fmt.Sprintf("CSS()=%q want %q", css, want)
					} else if tcell.GetColor(css) != c {
						bad = fmt.Sprintf("GetColor(%q) does not round-trip", css)
					} else if tcell.GetColor(fmt.Sprintf("#%06x", v)) != c {
						bad = "GetColor(lower-case hex) does not round-trip"
					}
				}
				if bad != "" {
					r.Violate("conversion:rgb", fmt.Sprintf("value %#06x: %s", v, bad), v)
					return
				}
			}
		}
	})
	r.CaseN(1<<24, 1<<24)
	// out-of-range components are masked to a byte (documented range 0-255)
	for _, t := range [][3]int32{{256, 0, 0}, {-1, 511, 1000}, {0x1ff, 0x2aa, 0x355}} {
		c := tcell.NewRGBColor(t[0], t[1], t[2])
		if c != tcell.NewHexColor((t[0]&0xff)<<16|(t[1]&0xff)<<8|(t[2]&0xff)) || !c.Valid() {
			r.Violate("conversion:mask", fmt.Sprintf("NewRGBColor(%v) = %#x", t, uint64(c)), nil)
		}
	}
	// invalid and special colours
	specials := []tcell.Color{tcell.ColorDefault, tcell.ColorNone, tcell.ColorReset, tcell.ColorSpecial | 7,
		tcell.ColorIsRGB | 0x123456, tcell.Color(5), tcell.Color(0xffffff), ^tcell.ColorValid, tcell.ColorSpecial | tcell.ColorIsRGB | 9,
		tcell.NewRGBColor(1, 2, 3) &^ tcell.ColorValid}
	for _, c := range specials {
		r1, g1, b1 := c.RGB()
		if c.Valid() || c.IsRGB() || c.Hex() != -1 || r1 != -1 || g1 != -1 || b1 != -1 || c.CSS() != "" || c.TrueColor() != tcell.ColorDefault {
			r.Violate("conversion:invalid", fmt.Sprintf("invalid/special colour %#x: Valid=%v IsRGB=%v Hex=%d RGB=%d,%d,%d CSS=%q TrueColor=%#x", uint64(c), c.Valid(), c.IsRGB(), c.Hex(), r1, g1, b1, c.CSS(), uint64(c.TrueColor())), uint64(c))
		}
	}
	// FromImageColor for the other colour models of image/color (16-bit channels that are not
	// byte-replicated, translucent, grey, CMYK, YCbCr): the result is what the standard
	// library's own 8-bit conversion (color.RGBAModel) gives for the three colour channels
	{
		nimg := r.Pick(200000, 5000000)
		core.Parallel(16, func(w int) {
			for i := w; i < nimg; i += 16 {
				rg := r.Rand("img", i)
				u16 := func() uint16 { return uint16(rg.IntN(1 << 16)) }
				u8 := func() uint8 { return uint8(rg.IntN(256)) }
				var col ic.Color
				kind := ""
				switch i % 8 {
				case 0:
					a := u16()
					col, kind = ic.RGBA64{R: uint16(rg.IntN(int(a) + 1)), G: uint16(rg.IntN(int(a) + 1)), B: uint16(rg.IntN(int(a) + 1)), A: a}, "RGBA64"
				case 1:
					col, kind = ic.RGBA64{R: u16(), G: u16(), B: u16(), A: 0xffff}, "RGBA64-opaque"
				case 2:
					col, kind = ic.NRGBA64{R: u16(), G: u16(), B: u16(), A: u16()}, "NRGBA64"
				case 3:
					col, kind = ic.NRGBA{R: u8(), G: u8(), B: u8(), A: u8()}, "NRGBA-translucent"
				case 4:
					col, kind = ic.Gray16{Y: u16()}, "Gray16"
				case 5:
					col, kind = ic.CMYK{C: u8(), M: u8(), Y: u8(), K: u8()}, "CMYK"
				case 6:
					col, kind = ic.YCbCr{Y: u8(), Cb: u8(), Cr: u8()}, "YCbCr"
				default:
					col, kind = ic.Gray{Y: u8()}, "Gray"
				}
				want8 := ic.RGBAModel.Convert(col).(ic.RGBA)
				want := tcell.NewRGBColor(int32(want8.R), int32(want8.G), int32(want8.B))
				if got := tcell.FromImageColor(col); got != want {
					r.Violate("conversion:fromimagecolor:"+kind, fmt.Sprintf("FromImageColor(%s %+v) = #%06x, the 8-bit conversion of image/color gives #%06x", kind, col, got.Hex(), want.Hex()), nil)
					return
				}
			}
		})
		r.CaseN(int64(nimg), int64(nimg))
	}
	for _, s := range []string{"", "nosuchcolor", "#12345", "#1234567", "#zzzzzz", "123456", "Red"} {
		if c := tcell.GetColor(s); c != tcell.ColorDefault {
			r.Violate("conversion:getcolor-unknown", fmt.Sprintf("GetColor(%q) = %#x, expected ColorDefault", s, uint64(c)), s)
		}
	}
	r.CaseN(int64(len(specials)+7), int64(len(specials)+7))

	// ---- FindColor ----------------------------------------------------------
	pals := map[string]*labPal{}
	for _, n := range []int{8, 16, 88, 256} {
		var cs []tcell.Color
		for i := 0; i < n; i++ {
			cs = append(cs, tcell.PaletteColor(i))
		}
		pals[fmt.Sprint(n)] = mkLabPal(cs)
	}
	if got := tcell.FindColor(tcell.NewHexColor(0x123456), nil); got != tcell.ColorDefault {
		r.Violate("findcolor:empty", fmt.Sprintf("FindColor on an empty palette = %#x", uint64(got)), nil)
	}
	for _, pn := range []string{"8", "16", "88", "256"} {
		p := pals[pn]
		if r.Quick() {
			step := 8
			if pn == "256" || pn == "88" {
				step = 8
			}
			var vals []int
			for v := 0; v < 256; v += step {
				vals = append(vals, v)
			}
			vals = append(vals, 255)
			core.Parallel(len(vals), func(i int) {
				for _, g := range vals {
					for _, b := range vals {
						hex := int32(vals[i]<<16 | g<<8 | b)
						if !checkFit(r, pn, tcell.NewHexColor(hex), hex, p) {
							return
						}
					}
				}
			})
			n := int64(len(vals) * len(vals) * len(vals))
			r.CaseN(n, n)
			nr := 30000
			core.Parallel(16, func(w int) {
				for i := w; i < nr; i += 16 {
					rg := r.Rand("fit", pn, i)
					hex := int32(rg.IntN(1 << 24))
					checkFit(r, pn, tcell.NewHexColor(hex), hex, p)
				}
			})
			r.CaseN(int64(nr), int64(nr))
		} else {
			core.Parallel(256, func(rr int) {
				for g := 0; g < 256; g++ {
					for b := 0; b < 256; b++ {
						hex := int32(rr<<16 | g<<8 | b)
						if !checkFit(r, pn, tcell.NewHexColor(hex), hex, p) {
							return
						}
					}
				}
			})
			r.CaseN(1<<24, 1<<24)
		}
		// palette colours as the query
		for i := 0; i < 256; i++ {
			checkFit(r, pn, tcell.PaletteColor(i), colorref.Palette(i), p)
		}
		r.CaseN(256, 256)
	}
	// random palettes; runs of equal-size palettes queried with the same colours
	nruns := r.Pick(300, 20000)
	core.Parallel(16, func(w int) {
		for i := w; i < nruns; i += 16 {
			rg := r.Rand("rpal", i)
			size := 1 + rg.IntN(40)
			queries := make([]int32, 6)
			for k := range queries {
				queries[k] = int32(rg.IntN(1 << 24))
			}
			var desc []string
			for rep := 0; rep < 3; rep++ {
				var cs []tcell.Color
				for k := 0; k < size; k++ {
					if rg.IntN(3) == 0 {
						cs = append(cs, tcell.PaletteColor(rg.IntN(256)))
					} else {
						cs = append(cs, tcell.NewHexColor(int32(rg.IntN(1<<24))))
					}
				}
				p := mkLabPal(cs)
				for _, qv := range queries {
					checkFit(r, "random", tcell.NewHexColor(qv), qv, p)
				}
				// palette-indexed query colours against a palette that is not the identity prefix
				for k := 0; k < 4; k++ {
					qi := rg.IntN(256)
					if k == 0 {
						qi = rg.IntN(size) // an index below the palette size
					}
					checkFit(r, "random-indexed-query", tcell.PaletteColor(qi), colorref.Palette(qi), p)
				}
				desc = append(desc, fmt.Sprintf("%d colours", size))
			}
			r.Case(fmt.Sprintf("rpal|%d|%v", size, queries))
			if i < 2 {
				r.Sample(6, map[string]any{"kind": "random palettes", "palettes": desc, "queries": fmt.Sprintf("%06x", queries)})
			}
		}
	})
	// fixed non-identity palettes (the monochrome one tcell itself uses, a reversed and a
	// rotated 16-colour one) x all 256 palette-indexed queries
	{
		var rev, rot []tcell.Color
		for i := 0; i < 16; i++ {
			rev = append(rev, tcell.PaletteColor(15-i))
			rot = append(rot, tcell.PaletteColor((i+5)%16))
		}
		fixed := map[string]*labPal{
			"mono":       mkLabPal([]tcell.Color{tcell.ColorBlack, tcell.ColorWhite}),
			"reversed16": mkLabPal(rev),
			"rotated16":  mkLabPal(rot),
			"rgb-only":   mkLabPal([]tcell.Color{tcell.NewHexColor(0x102030), tcell.NewHexColor(0xf0e0d0), tcell.NewHexColor(0x808000)}),
		}
		for name, p := range fixed {
			for i := 0; i < 256; i++ {
				checkFit(r, name, tcell.PaletteColor(i), colorref.Palette(i), p)
			}
			r.CaseN(256, 256)
		}
	}
	// invalid query colour: membership only
	for _, c := range []tcell.Color{tcell.ColorDefault, tcell.ColorReset, tcell.Color(1234)} {
		got := tcell.FindColor(c, pals["16"].cols)
		member := false
		for _, m := range pals["16"].cols {
			if m == got {
				member = true
			}
		}
		if !member {
			r.Violate("findcolor:not-a-member:invalid-query", fmt.Sprintf("FindColor(%#x, 16 colours) = %#x not in palette", uint64(c), uint64(got)), nil)
		}
	}
	r.Sample(6, map[string]any{"kind": "findcolor", "query": "#ff8c00", "palette256": fmt.Sprint(tcell.FindColor(tcell.NewHexColor(0xff8c00), pals["256"].cols)), "palette8": fmt.Sprint(tcell.FindColor(tcell.NewHexColor(0xff8c00), pals["8"].cols))})
	r.Exhaustive = !r.Quick()
}
