module verif

go 1.23

require (
	github.com/anishathalye/porcupine v1.3.0
	github.com/gdamore/tcell/v2 v2.0.0
	github.com/mattn/go-runewidth v0.0.16
	golang.org/x/text v0.21.0
)

replace github.com/gdamore/tcell/v2 => /repo
