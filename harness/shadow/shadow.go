// Package shadow is the harness's independent record of what an application
// last set on a Screen (cells, default style, cursor, locks), the generator of
// draw histories, and the rendering of the model to the display the statements
// promise.  It has no dependency on the terminal emulator so that it can also
// be compiled for js/wasm.
package shadow

import (
	"fmt"
	"math/rand/v2"
	"os"
	"strings"

	"github.com/gdamore/tcell/v2"
	runewidth "github.com/mattn/go-runewidth"
)

var cond = func() *runewidth.Condition {
	c := runewidth.NewCondition()
	// tcell switches East Asian ambiguous width off unless RUNEWIDTH_EASTASIAN is set; the
	// child runs under RUNEWIDTH_EASTASIAN=1 use the same rule on the model's side
	c.EastAsianWidth = os.Getenv("RUNEWIDTH_EASTASIAN") == "1"
	return c
}()

// Width: columns of a rune. The word joiner, invisible operators and bidi isolates
// U+2060..U+2069 are format characters (C09: shown as blanks); go-runewidth's
// tables lack them.
func Width(r rune) int {
	if r >= 0x2060 && r <= 0x2069 {
		return 0
	}
	return cond.RuneWidth(r)
}

// MustBlank: primary runes shown as a blank of width 1.
func MustBlank(r rune) bool { return r < ' ' || Width(r) == 0 }

// Spec is a style in plain data form (JSON friendly).
type Spec struct {
	Fg, Bg, Ul                            tcell.Color
	Bold, Dim, Italic, Blink, Rev, Strike bool
	Us                                    int // tcell.UnderlineStyle
	Url, Id                               string
}

func (s Spec) IsDefault() bool { return s == Spec{} }

func (s Spec) Style() tcell.Style {
	st := tcell.StyleDefault.Foreground(s.Fg).Background(s.Bg).Bold(s.Bold).Dim(s.Dim).Italic(s.Italic).Blink(s.Blink).Reverse(s.Rev).StrikeThrough(s.Strike)
	if s.Us != 0 {
		st = st.Underline(tcell.UnderlineStyle(s.Us), s.Ul)
	}
	if s.Url != "" {
		st = st.Url(s.Url)
		if s.Id != "" {
			st = st.UrlId(s.Id)
		}
	}
	return st
}

func (s Spec) Short() string {
	if s.IsDefault() {
		return "def"
	}
	var a []string
	for _, f := range []struct {
		b bool
		n string
	}{{s.Bold, "b"}, {s.Dim, "d"}, {s.Italic, "i"}, {s.Blink, "k"}, {s.Rev, "r"}, {s.Strike, "s"}} {
		if f.b {
			a = append(a, f.n)
		}
	}
	out := fmt.Sprintf("{fg=%s bg=%s %s", colStr(s.Fg), colStr(s.Bg), strings.Join(a, ""))
	if s.Us != 0 {
		out += fmt.Sprintf(" ul=%d/%s", s.Us, colStr(s.Ul))
	}
	if s.Url != "" {
		out += fmt.Sprintf(" url=%s/%s", s.Url, s.Id)
	}
	return out + "}"
}

func colStr(c tcell.Color) string {
	switch {
	case c == tcell.ColorDefault:
		return "default"
	case c == tcell.ColorReset:
		return "reset"
	case c == tcell.ColorNone:
		return "none"
	case c.IsRGB():
		return fmt.Sprintf("#%06x", c.Hex())
	case c.Valid():
		return fmt.Sprintf("p%d", int(c&0xffff))
	}
	return fmt.Sprintf("?%x", uint64(c))
}

// Op is one operation of a draw history.
type Op struct {
	K          string // set setcell fill clear setstyle cursor hidecursor cursorstyle lock show sync resize resizecb corruptsync
	X, Y, W, H int
	R          rune
	Comb       []rune
	Sp         Spec
	Lock       bool
	CS         int         // cursor style
	CC         tcell.Color // cursor colour
	HasCC      bool
}

func (o Op) String() string {
	switch o.K {
	case "set", "setcell":
		return fmt.Sprintf("%s(%d,%d,%U,%U,%s)", o.K, o.X, o.Y, o.R, o.Comb, o.Sp.Short())
	case "fill":
		return fmt.Sprintf("fill(%U,%s)", o.R, o.Sp.Short())
	case "setstyle":
		return fmt.Sprintf("setstyle(%s)", o.Sp.Short())
	case "cursor":
		return fmt.Sprintf("cursor(%d,%d)", o.X, o.Y)
	case "cursorstyle":
		if o.HasCC {
			return fmt.Sprintf("cursorstyle(%d,%s)", o.CS, colStr(o.CC))
		}
		return fmt.Sprintf("cursorstyle(%d)", o.CS)
	case "resize", "resizecb":
		return fmt.Sprintf("%s(%d,%d)", o.K, o.W, o.H)
	case "lock":
		return fmt.Sprintf("lock(%d,%d,%d,%d,%v)", o.X, o.Y, o.W, o.H, o.Lock)
	case "restore":
		return fmt.Sprintf("restore(%d,%d,via%d)", o.X, o.Y, o.CS)
	case "failshow":
		return fmt.Sprintf("show-with-write-failing-after-%d-bytes,show,sync", o.X)
	}
	return o.K
}

// Recomb returns comb with its last mark exchanged for a different one (nil if comb is empty):
// content that differs from what the cell holds only in one combining rune.
func Recomb(comb []rune) []rune {
	if len(comb) == 0 {
		return nil
	}
	out := append([]rune(nil), comb...)
	marks := []rune{0x300, 0x301, 0x308, 0x323}
	for i, m := range marks {
		if out[len(out)-1] == m {
			out[len(out)-1] = marks[(i+1)%len(marks)]
			return out
		}
	}
	out[len(out)-1] = marks[0]
	return out
}

func OpsString(ops []Op) string {
	var ss []string
	for _, o := range ops {
		ss = append(ss, o.String())
	}
	return strings.Join(ss, " ")
}

// ---------------------------------------------------------------------------

type Cell struct {
	R    rune
	Comb []rune
	St   Spec
	Lock bool
}

// Model is the logical screen.
type Model struct {
	W, H   int
	C      []Cell
	Def    Spec
	CX, CY int
	CS     int
	CC     tcell.Color
	CSSet  bool // SetCursorStyle was called at least once
	CCSet  bool
}

func NewModel(w, h int) *Model {
	m := &Model{W: w, H: h, C: make([]Cell, w*h), CX: -1, CY: -1}
	for i := range m.C {
		m.C[i].R = ' ' // what GetContent reports for a cell never written
	}
	return m
}

func (m *Model) In(x, y int) bool { return x >= 0 && y >= 0 && x < m.W && y < m.H }

func (m *Model) Resize(w, h int) {
	n := make([]Cell, w*h)
	for i := range n {
		n[i].R = ' '
	}
	for y := 0; y < h && y < m.H; y++ {
		for x := 0; x < w && x < m.W; x++ {
			n[y*w+x] = m.C[y*m.W+x]
			n[y*w+x].Lock = false
		}
	}
	m.C, m.W, m.H = n, w, h
}

func merge(sp Spec, old Spec) Spec {
	if sp.Fg == tcell.ColorNone {
		sp.Fg = old.Fg
	}
	if sp.Bg == tcell.ColorNone {
		sp.Bg = old.Bg
	}
	return sp
}

// Set stores content like SetContent does (ColorNone keeps the old colour).
func (m *Model) Set(x, y int, r rune, comb []rune, sp Spec) {
	if !m.In(x, y) {
		return
	}
	c := &m.C[y*m.W+x]
	c.R, c.Comb, c.St = r, append([]rune(nil), comb...), merge(sp, c.St)
}

// Disp is what one cell of the display must show.
type Disp struct {
	R          rune
	Comb       []rune
	Wide, Cont bool
	St         Spec // resolved (default style applied)
	DefStyle   bool // the cell holds StyleDefault (resolved against the screen default)
}

// Expected renders the model: row scan left to right; a wide rune that fits
// covers the next column; in the last column it is a blank; zero-width and
// control primary runes are blanks.
func (m *Model) Expected() []Disp {
	out := make([]Disp, m.W*m.H)
	for y := 0; y < m.H; y++ {
		for x := 0; x < m.W; x++ {
			c := m.C[y*m.W+x]
			st := c.St
			def := false
			if st.IsDefault() {
				st = m.Def
				def = true
			}
			r := c.R
			w := Width(r)
			if MustBlank(r) {
				r, w = ' ', 1
			}
			d := Disp{R: r, Comb: c.Comb, St: st, DefStyle: def}
			if w == 2 {
				if x == m.W-1 {
					d = Disp{R: ' ', St: st, DefStyle: def}
				} else {
					d.Wide = true
					out[y*m.W+x] = d
					out[y*m.W+x+1] = Disp{Cont: true, St: st, DefStyle: def}
					x++
					continue
				}
			}
			out[y*m.W+x] = d
		}
	}
	return out
}

// IsHidden reports whether (x,y) is currently the hidden right half of a wide rune.
func (m *Model) IsHidden(x, y int) bool {
	if !m.In(x, y) {
		return false
	}
	return m.Expected()[y*m.W+x].Cont
}

// ---------------------------------------------------------------------------
// generator

var RunesNarrow = []rune("abcXYZ09#@é¿ñЖλ─│┌★·")
var RunesWide = []rune("世界日本語あア한😀")
var RunesComb = []rune{0x301, 0x308, 0x20dd}
var RunesBad = []rune{0, 7, 0x1b, 0x7f, 0x9b, 0x85, 0x200b, 0x202e, 0xfeff, 0x301, -1, 0x110000, 0xd800}

type GenOpts struct {
	MaxW, MaxH    int
	NoResize      bool
	NoCorrupt     bool
	NoLock        bool
	NoCursorStyle bool
	Urls          bool
	// WeirdColors: colour values outside what the constructors normally yield (palette indices
	// beyond 255 through TrueColor, negative hex values, colours without the valid bit). Only for
	// checks that judge the well-formedness of the output, not the displayed colour.
	WeirdColors bool
	// SuspendResume: the application hands the terminal to another program and takes it back
	// (Suspend, foreign output, Resume), then shows
	SuspendResume bool
	// WriteFail: a Show during which the terminal stops accepting output (Tty.Write fails after
	// some bytes), followed by an idle Show and a Sync
	WriteFail bool
	// Corner: most content goes into the last columns of the bottom row, half of it wide (the
	// bottom-right corner has special handling on terminals without a way to disable auto-margins)
	Corner bool
}

// WeirdColor returns one of those values.
func WeirdColor(r *rand.Rand) tcell.Color {
	switch r.IntN(8) {
	case 0:
		return tcell.PaletteColor(300 + r.IntN(1000)).TrueColor()
	case 1:
		return tcell.NewHexColor(-int32(1 + r.IntN(5)))
	case 2:
		return tcell.GetColor("#-00001")
	case 3:
		return tcell.PaletteColor(256 + r.IntN(5000))
	case 4:
		return tcell.Color(0x1234 + r.IntN(100)) // no valid bit
	case 5:
		return tcell.ColorIsRGB | tcell.Color(r.IntN(1<<24)) // RGB flag without the valid bit
	case 6:
		return tcell.NewRGBColor(int32(300+r.IntN(100)), -5, 1000)
	}
	return tcell.PaletteColor(-1 - r.IntN(3))
}

func GenColor(r *rand.Rand) tcell.Color {
	switch r.IntN(8) {
	case 0:
		return tcell.ColorDefault
	case 1:
		return tcell.PaletteColor(r.IntN(16))
	case 2:
		return tcell.PaletteColor(r.IntN(256))
	case 3:
		return tcell.NewRGBColor(int32(r.IntN(256)), int32(r.IntN(256)), int32(r.IntN(256)))
	case 4:
		return tcell.ColorReset
	case 5:
		return tcell.ColorDarkOrange
	case 6:
		return tcell.ColorNone
	}
	return tcell.PaletteColor(r.IntN(8))
}

func GenSpec(r *rand.Rand, urls bool) Spec {
	if r.IntN(4) == 0 {
		return Spec{}
	}
	s := Spec{Fg: GenColor(r), Bg: GenColor(r)}
	b := func() bool { return r.IntN(5) == 0 }
	s.Bold, s.Dim, s.Italic, s.Blink, s.Rev, s.Strike = b(), b(), b(), b(), b(), b()
	if r.IntN(3) == 0 {
		s.Us = 1 + r.IntN(5)
		s.Ul = GenColor(r)
		if s.Ul == tcell.ColorNone {
			s.Ul = tcell.ColorDefault
		}
	}
	if urls && r.IntN(6) == 0 {
		s.Url = fmt.Sprintf("http://h/%d", r.IntN(5))
		if r.IntN(2) == 0 {
			s.Id = fmt.Sprintf("i%d", r.IntN(3))
		}
	}
	return s
}

// Gen generates a history: initial size and operations.  The final operation
// is always a show.
func Gen(r *rand.Rand, o GenOpts) (int, int, []Op) {
	if o.MaxW == 0 {
		o.MaxW, o.MaxH = 16, 6
	}
	w, h := 2+r.IntN(o.MaxW-1), 1+r.IntN(o.MaxH)
	n := 20 + r.IntN(80)
	var ops []Op
	cw, ch := w, h
	for i := 0; i < n; i++ {
		switch k := r.IntN(100); {
		case k < 55:
			o2 := Op{K: "set", X: r.IntN(cw+3) - 1, Y: r.IntN(ch+3) - 1}
			if r.IntN(6) == 0 {
				o2.K = "setcell"
			}
			// bias towards the right margin and the bottom row
			if r.IntN(4) == 0 {
				o2.X = cw - 1 - r.IntN(3)
			}
			if r.IntN(5) == 0 {
				o2.Y = ch - 1
			}
			if o.Corner && r.IntN(4) != 0 {
				o2.X, o2.Y = cw-1-r.IntN(6), ch-1
			}
			switch q := r.IntN(10); {
			case o.Corner && q < 5:
				o2.R = RunesWide[r.IntN(len(RunesWide))]
			case q < 5:
				o2.R = RunesNarrow[r.IntN(len(RunesNarrow))]
			case q < 8:
				o2.R = RunesWide[r.IntN(len(RunesWide))]
			default:
				o2.R = RunesBad[r.IntN(len(RunesBad))]
			}
			if r.IntN(6) == 0 {
				o2.Comb = []rune{RunesComb[r.IntN(len(RunesComb))]}
				if r.IntN(3) == 0 {
					o2.Comb = append(o2.Comb, RunesComb[r.IntN(len(RunesComb))])
				}
			}
			o2.Sp = GenSpec(r, o.Urls)
			if o.WeirdColors && r.IntN(5) == 0 {
				switch r.IntN(3) {
				case 0:
					o2.Sp.Fg = WeirdColor(r)
				case 1:
					o2.Sp.Bg = WeirdColor(r)
				default:
					o2.Sp.Us, o2.Sp.Ul = 1+r.IntN(5), WeirdColor(r)
				}
			}
			ops = append(ops, o2)
		case k < 62:
			// re-store whatever the cell holds now (identical content)
			// (via 3, 4: same base rune and style, the last combining mark exchanged for another)
			ops = append(ops, Op{K: "restore", X: r.IntN(cw), Y: r.IntN(ch), CS: r.IntN(5)})
		case k < 70:
			ops = append(ops, Op{K: "show"})
		case k < 75:
			if r.IntN(4) == 0 {
				// well outside on either side (negative coordinates beyond -1 included)
				ops = append(ops, Op{K: "cursor", X: r.IntN(cw+8) - 4, Y: r.IntN(ch+8) - 4})
			} else {
				ops = append(ops, Op{K: "cursor", X: r.IntN(cw+3) - 1, Y: r.IntN(ch+3) - 1})
			}
		case k < 76:
			ops = append(ops, Op{K: "hidecursor"})
		case k < 78:
			if !o.NoCursorStyle {
				o2 := Op{K: "cursorstyle", CS: r.IntN(7)}
				if r.IntN(2) == 0 {
					o2.HasCC = true
					o2.CC = []tcell.Color{tcell.ColorReset, tcell.NewRGBColor(int32(r.IntN(256)), 10, 200), tcell.PaletteColor(r.IntN(16)), tcell.ColorDefault}[r.IntN(4)]
				}
				ops = append(ops, o2)
			}
		case k < 82:
			if !o.NoCorrupt {
				ops = append(ops, Op{K: "corruptsync"})
			} else {
				ops = append(ops, Op{K: "sync"})
			}
		case k < 84:
			if o.SuspendResume && r.IntN(3) == 0 {
				ops = append(ops, Op{K: "suspres"})
			} else if o.WriteFail && r.IntN(3) == 0 {
				ops = append(ops, Op{K: "failshow", X: r.IntN(60)})
			} else {
				ops = append(ops, Op{K: "sync"})
			}
		case k < 88:
			if !o.NoResize {
				nw, nh := 2+r.IntN(o.MaxW-1), 1+r.IntN(o.MaxH)
				kk := "resize"
				if r.IntN(2) == 0 {
					kk = "resizecb"
				}
				ops = append(ops, Op{K: kk, W: nw, H: nh})
				cw, ch = nw, nh
			}
		case k < 93:
			if !o.NoLock {
				ops = append(ops, Op{K: "lock", X: r.IntN(cw+3) - 2, Y: r.IntN(ch+2) - 1, W: 1 + r.IntN(4), H: 1 + r.IntN(3), Lock: r.IntN(2) == 0})
			}
		case k < 95:
			sp := GenSpec(r, false)
			ops = append(ops, Op{K: "fill", R: append(RunesNarrow, 0, 7, 0x9b, 0x200b)[r.IntN(len(RunesNarrow)+4)], Sp: sp})
		case k < 97:
			sp := GenSpec(r, false)
			if sp.Fg == tcell.ColorNone {
				sp.Fg = tcell.ColorDefault
			}
			if sp.Bg == tcell.ColorNone {
				sp.Bg = tcell.ColorDefault
			}
			ops = append(ops, Op{K: "setstyle", Sp: sp})
		default:
			ops = append(ops, Op{K: "clear"})
		}
	}
	ops = append(ops, Op{K: "show"})
	return w, h, ops
}
