// Package colorref holds the harness's own colour references: the xterm
// 256-colour palette formula, the CSS3 / SVG colour keyword table, and an
// independent sRGB -> CIELAB conversion (D65) with the CIE76 distance.
package colorref

import "math"

// Basic16 are the 16 basic colours (the W3C/VGA 16 that tcell documents).
var Basic16 = [16]int32{
	0x000000, 0x800000, 0x008000, 0x808000, 0x000080, 0x800080, 0x008080, 0xc0c0c0,
	0x808080, 0xff0000, 0x00ff00, 0xffff00, 0x0000ff, 0xff00ff, 0x00ffff, 0xffffff,
}

// Palette returns the RGB value of xterm palette index i (0..255).
func Palette(i int) int32 {
	switch {
	case i < 16:
		return Basic16[i]
	case i < 232:
		lv := [6]int32{0, 95, 135, 175, 215, 255}
		k := i - 16
		return lv[k/36]<<16 | lv[(k/6)%6]<<8 | lv[k%6]
	default:
		g := int32(8 + 10*(i-232))
		return g<<16 | g<<8 | g
	}
}

// Lab converts a 24-bit sRGB value to CIELAB (D65), L in 0..1 scale as used by
// CIE76 implementations that scale L*,a*,b* by 1/100.
func Lab(hex int32) (l, a, b float64) {
	lin := func(v float64) float64 {
		if v <= 0.04045 {
			return v / 12.92
		}
		return math.Pow((v+0.055)/1.055, 2.4)
	}
	r, g, bl := lin(float64(hex>>16&255)/255), lin(float64(hex>>8&255)/255), lin(float64(hex&255)/255)
	// sRGB primaries and D65 white point (x=0.3127, y=0.3290) at full precision
	x := 0.41239079926595948*r + 0.35758433938387796*g + 0.18048078840183429*bl
	y := 0.21263900587151036*r + 0.71516867876775593*g + 0.072192315360733715*bl
	z := 0.019330818715591851*r + 0.11919477979462599*g + 0.95053215224966058*bl
	f := func(t float64) float64 {
		if t > 6.0/29*6.0/29*6.0/29 {
			return math.Cbrt(t)
		}
		return t/3*29.0/6*29.0/6 + 4.0/29
	}
	fx, fy, fz := f(x/0.95047), f(y/1.0), f(z/1.08883)
	return 1.16*fy - 0.16, 5.0 * (fx - fy), 2.0 * (fy - fz)
}

// Dist is the CIE76 distance between two Lab triples.
func Dist(l1, a1, b1, l2, a2, b2 float64) float64 {
	return math.Sqrt((l1-l2)*(l1-l2) + (a1-a2)*(a1-a2) + (b1-b2)*(b1-b2))
}

// CSS is the CSS3 / SVG 1.1 colour keyword table (147 keywords incl. the
// grey/gray spellings) plus rebeccapurple from CSS Color 4.
var CSS = map[string]int32{
	"aliceblue": 0xf0f8ff, "antiquewhite": 0xfaebd7, "aqua": 0x00ffff, "aquamarine": 0x7fffd4, "azure": 0xf0ffff,
	"beige": 0xf5f5dc, "bisque": 0xffe4c4, "black": 0x000000, "blanchedalmond": 0xffebcd, "blue": 0x0000ff,
	"blueviolet": 0x8a2be2, "brown": 0xa52a2a, "burlywood": 0xdeb887, "cadetblue": 0x5f9ea0, "chartreuse": 0x7fff00,
	"chocolate": 0xd2691e, "coral": 0xff7f50, "cornflowerblue": 0x6495ed, "cornsilk": 0xfff8dc, "crimson": 0xdc143c,
	"cyan": 0x00ffff, "darkblue": 0x00008b, "darkcyan": 0x008b8b, "darkgoldenrod": 0xb8860b, "darkgray": 0xa9a9a9,
	"darkgreen": 0x006400, "darkgrey": 0xa9a9a9, "darkkhaki": 0xbdb76b, "darkmagenta": 0x8b008b, "darkolivegreen": 0x556b2f,
	"darkorange": 0xff8c00, "darkorchid": 0x9932cc, "darkred": 0x8b0000, "darksalmon": 0xe9967a, "darkseagreen": 0x8fbc8f,
	"darkslateblue": 0x483d8b, "darkslategray": 0x2f4f4f, "darkslategrey": 0x2f4f4f, "darkturquoise": 0x00ced1, "darkviolet": 0x9400d3,
	"deeppink": 0xff1493, "deepskyblue": 0x00bfff, "dimgray": 0x696969, "dimgrey": 0x696969, "dodgerblue": 0x1e90ff,
	"firebrick": 0xb22222, "floralwhite": 0xfffaf0, "forestgreen": 0x228b22, "fuchsia": 0xff00ff, "gainsboro": 0xdcdcdc,
	"ghostwhite": 0xf8f8ff, "gold": 0xffd700, "goldenrod": 0xdaa520, "gray": 0x808080, "grey": 0x808080,
	"green": 0x008000, "greenyellow": 0xadff2f, "honeydew": 0xf0fff0, "hotpink": 0xff69b4, "indianred": 0xcd5c5c,
	"indigo": 0x4b0082, "ivory": 0xfffff0, "khaki": 0xf0e68c, "lavender": 0xe6e6fa, "lavenderblush": 0xfff0f5,
	"lawngreen": 0x7cfc00, "lemonchiffon": 0xfffacd, "lightblue": 0xadd8e6, "lightcoral": 0xf08080, "lightcyan": 0xe0ffff,
	"lightgoldenrodyellow": 0xfafad2, "lightgray": 0xd3d3d3, "lightgreen": 0x90ee90, "lightgrey": 0xd3d3d3, "lightpink": 0xffb6c1,
	"lightsalmon": 0xffa07a, "lightseagreen": 0x20b2aa, "lightskyblue": 0x87cefa, "lightslategray": 0x778899, "lightslategrey": 0x778899,
	"lightsteelblue": 0xb0c4de, "lightyellow": 0xffffe0, "lime": 0x00ff00, "limegreen": 0x32cd32, "linen": 0xfaf0e6,
	"magenta": 0xff00ff, "maroon": 0x800000, "mediumaquamarine": 0x66cdaa, "mediumblue": 0x0000cd, "mediumorchid": 0xba55d3,
	"mediumpurple": 0x9370db, "mediumseagreen": 0x3cb371, "mediumslateblue": 0x7b68ee, "mediumspringgreen": 0x00fa9a, "mediumturquoise": 0x48d1cc,
	"mediumvioletred": 0xc71585, "midnightblue": 0x191970, "mintcream": 0xf5fffa, "mistyrose": 0xffe4e1, "moccasin": 0xffe4b5,
	"navajowhite": 0xffdead, "navy": 0x000080, "oldlace": 0xfdf5e6, "olive": 0x808000, "olivedrab": 0x6b8e23,
	"orange": 0xffa500, "orangered": 0xff4500, "orchid": 0xda70d6, "palegoldenrod": 0xeee8aa, "palegreen": 0x98fb98,
	"paleturquoise": 0xafeeee, "palevioletred": 0xdb7093, "papayawhip": 0xffefd5, "peachpuff": 0xffdab9, "peru": 0xcd853f,
	"pink": 0xffc0cb, "plum": 0xdda0dd, "powderblue": 0xb0e0e6, "purple": 0x800080, "red": 0xff0000,
	"rosybrown": 0xbc8f8f, "royalblue": 0x4169e1, "saddlebrown": 0x8b4513, "salmon": 0xfa8072, "sandybrown": 0xf4a460,
	"seagreen": 0x2e8b57, "seashell": 0xfff5ee, "sienna": 0xa0522d, "silver": 0xc0c0c0, "skyblue": 0x87ceeb,
	"slateblue": 0x6a5acd, "slategray": 0x708090, "slategrey": 0x708090, "snow": 0xfffafa, "springgreen": 0x00ff7f,
	"steelblue": 0x4682b4, "tan": 0xd2b48c, "teal": 0x008080, "thistle": 0xd8bfd8, "tomato": 0xff6347,
	"turquoise": 0x40e0d0, "violet": 0xee82ee, "wheat": 0xf5deb3, "white": 0xffffff, "whitesmoke": 0xf5f5f5,
	"yellow": 0xffff00, "yellowgreen": 0x9acd32, "rebeccapurple": 0x663399,
}
