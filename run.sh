#!/bin/bash
# Entry point of every registered command.
#   ./run.sh setup                 build the framework (offline)
#   ./run.sh <Cnn> quick|thorough  run one property check (rebuilds from /repo's working tree)
#   ./run.sh replay <file>
set -u
cd "$(dirname "$0")"
export VERIF_DIR="$PWD"
export GOFLAGS=-mod=mod GOPROXY=off GOSUMDB=off GOTOOLCHAIN=local
export CARGO_NET_OFFLINE=true PIP_NO_INDEX=1
mkdir -p bin evidence replays

# sanitized environment for everything tcell reads at run time
unset LINES COLUMNS COLORTERM TCELL_TRUECOLOR TCELL_ALTSCREEN RUNEWIDTH_EASTASIAN TERM LC_ALL LC_CTYPE LC_MESSAGES LANG LANGUAGE
export LC_ALL=C.UTF-8

# VERIF_REPO=<dir> builds against another checkout of tcell (used for background runs on a
# snapshot while /repo is being edited); registered commands never set it.
MODFLAG=""
if [ -n "${VERIF_REPO:-}" ]; then
  sed "s#=> /repo#=> $VERIF_REPO#" harness/go.mod > harness/go.alt.mod
  cp harness/go.sum harness/go.alt.sum
  MODFLAG="-modfile=$PWD/harness/go.alt.mod"
  export VERIF_MODFLAG="$MODFLAG"
fi

build() { # $1 = output, rest = extra flags
  local out=$1; shift
  (cd harness && go build $MODFLAG -tags verif "$@" -o "../bin/$out" ./cmd/vcheck) || { echo "BUILD FAILED ($out): tcell in /repo does not compile with the harness" >&2; return 1; }
}

case "${1:-}" in
  setup)
    build vcheck || exit 1
    build vcheck-race -race || exit 1
    echo "setup ok"
    ;;
  replay)
    build vcheck || exit 3
    exec ./bin/vcheck -replay "$2"
    ;;
  C*)
    id=$1; tier=${2:-${VERIF_TIER:-quick}}
    case "$id" in
      C05|C10) build vcheck-race -race || exit 3; bin=./bin/vcheck-race
               # race reports go to files (counted by the C10 check; C05 reports their number as an
               # observation); they never decide the exit code by themselves
               rm -f replays/$id-race.* 2>/dev/null
               export GORACE="halt_on_error=0 exitcode=0 history_size=3 log_path=$PWD/replays/$id-race" ;;
      *) build vcheck || exit 3; bin=./bin/vcheck ;;
    esac
    log="replays/$id-$tier-last.log"
    $bin -tier "$tier" "$id" 2>&1 | tee "$log"
    rc=${PIPESTATUS[0]}
    if [ "$rc" != 0 ] && [ "$rc" != 1 ] && ! grep -q '^INCONCLUSIVE property=' "$log"; then
      # the process died (Go runtime fatal error, unrecovered panic, signal) while running
      # tcell under the monitor: that is a fault of the code under test, not a verdict of held
      if grep -qE '^(fatal error:|panic:|SIG[A-Z]+:)' "$log"; then
        cp "$log" "replays/$id-$tier-crash.log"
        echo "VIOLATION property=$id replay=$PWD/replays/$id-$tier-crash.log"
        echo "   signature: process-crash"
        grep -m3 -E '^(fatal error:|panic:|SIG[A-Z]+:)' "$log" | sed 's/^/   /'
        exit 1
      fi
    fi
    exit $rc
    ;;
  *) echo "usage: $0 setup | <Cnn> quick|thorough | replay <file>" >&2; exit 3 ;;
esac
